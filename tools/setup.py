#!/venv/bin/python
"""setup_cmd: nothing to build (pure Python against /repo's working tree); verify the toolchain offline."""
import os, sys, importlib
sys.path.insert(0, os.path.dirname(os.path.dirname(os.path.abspath(__file__))))
import singlecellmultiomics, pysam, jsonschema  # noqa
print('singlecellmultiomics from', singlecellmultiomics.__file__, 'pysam', pysam.__version__)
from simv import driver
for p, e in sorted(driver.ENGINES.items()):
    try:
        importlib.import_module('simv.engines.' + e)
        print('engine', p, e, 'ok')
    except ImportError as ex:
        print('engine', p, e, 'not built:', ex)
os.makedirs('/verif/evidence', exist_ok=True)
os.makedirs('/verif/replays', exist_ok=True)
