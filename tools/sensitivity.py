#!/venv/bin/python
"""Run a check against a mutated scratch copy of the repository package.

  sensitivity.py <ID> <patch-file | 'sed:<file>:<expr>'> [--tier quick] [--max-runs N]

Copies /repo/singlecellmultiomics to a scratch dir outside /repo and /verif, applies the
mutation, runs check.py with SCMO_ROOT=<scratch> (sys.path beats the editable finder),
prints detected/missed and removes the copy.  Evidence files are not written (VERIF_NO_EVIDENCE).
"""
import os, shutil, subprocess, sys, tempfile, time

def main():
    pid, mut = sys.argv[1], sys.argv[2]
    extra = sys.argv[3:]
    d = tempfile.mkdtemp(prefix='scmo-mut-')
    try:
        shutil.copytree('/repo/singlecellmultiomics', os.path.join(d, 'singlecellmultiomics'),
                        ignore=shutil.ignore_patterns('__pycache__'))
        if mut.startswith('sed:'):
            _, f, expr = mut.split(':', 2)
            before = open(os.path.join(d, f), newline='').read()
            subprocess.run(['sed', '-i', expr, os.path.join(d, f)], check=True)
            if open(os.path.join(d, f), newline='').read() == before:
                print('MUTATION-DID-NOT-APPLY'); return 3
        else:
            r = subprocess.run(['git', 'apply', '--unsafe-paths', '--directory', d, os.path.abspath(mut)], cwd=d, capture_output=True, text=True)
            if r.returncode:
                r = subprocess.run(['patch', '-p1', '-d', d, '-i', os.path.abspath(mut)], capture_output=True, text=True)
                if r.returncode:
                    print('PATCH-DID-NOT-APPLY', r.stdout, r.stderr); return 3
        env = dict(os.environ, SCMO_ROOT=d, VERIF_NO_EVIDENCE='1')
        t = time.time()
        r = subprocess.run(['/venv/bin/python', '/verif/check.py', pid] + extra, env=env, capture_output=True, text=True)
        out = r.stdout + r.stderr
        tail = '\n'.join(out.strip().splitlines()[-6:])
        verdict = {0: 'MISSED', 1: 'DETECTED', 2: 'HARNESS-ERROR'}.get(r.returncode, f'exit{r.returncode}')
        print(f'{verdict} {pid} {mut} in {time.time()-t:.1f}s\n{tail}')
        return 0 if r.returncode == 1 else 1
    finally:
        shutil.rmtree(d, ignore_errors=True)

if __name__ == '__main__':
    sys.exit(main())
