#!/venv/bin/python
"""Writes /verif/MANIFEST.json from one table (kept valid at all times)."""
import json, os, sys
HERE = os.path.dirname(os.path.dirname(os.path.abspath(__file__)))
PY = '/venv/bin/python'
CLAIMED = {
 'C19': dict(engine='handles', cat='fault_enumeration', design='5 C19, 12.5',
   text='Seeded write sequences over HandleLimiter/FastqHandle(single_cell) on an in-memory SimFS (optionally holding files left by an earlier run); for every sampled sequence the fault family is enumerated: every fd budget k, a transient open failure at every open attempt (EMFILE/ENFILE/EIO), pairs of failures, every path permanently failing, clock anomalies. Oracle: decompressed content per path equals the acknowledged payloads in order, valid gzip, no leaked handle, write() raises only if its own open failed with no other handle open, bounded open attempts. A share of the cases additionally (a) runs the sequence on real gzip files under a real RLIMIT_NOFILE in a forked child (fidelity of the stub) and (b) re-executes the bamSplitByTag driver loop on seeded tagged BAMs for max_handles in {1, cells-1, cells, cells+1, random, 400} with tag values that collide after clean-up. Sampling over sequences, enumeration over faults: evidence, not proof.',
   note='Trusts: in-memory SimFS models open()/append/truncate; real gzip. write()/close() I/O errors are not injected (outside the statement).',
   tech='deterministic simulation: seeded workload x enumerated open()-fault plans on a simulated file system and clock; real descriptor-limit cross-check; ddmin-minimised explicit replay files'),
 'C16': dict(engine='features', cat='exploration', design='5 C16',
   text='Seeded operation histories (add* sort query*)+ over two FeatureContainers sharing the process-global LRU memo, with repeated queries across re-indexing and LRU churn through the second container; every point/range/aligned-read result is compared as a set with a brute-force list model, operation by operation. Sampled histories: evidence, not proof.',
   note='Trusts the list model and pysam block semantics (half-open). Un-indexed queries are preceded by sort() by the harness. The only fault on this surface is an interrupted re-index (exception at the k-th line of sort(), then sort() again); nothing is claimed for lookups on the half-built index in between.',
   tech='deterministic simulation: seeded operation histories with interrupted re-indexing (line-event injector) against an executable reference model, checked per operation; ddmin-minimised replay files'),
 'C07': dict(engine='eject', cat='exploration', design='5 C07, 12.5',
   text='For each seeded coordinate-sorted fragment sequence (<=60 fragments; site-anchored NLA pairs, chained base-class fragments linked by a shared start or end, single-end long reads, equal coordinates on two contigs; all inside the precondition) EVERY check_eject_every in {None,0..n} x both pooling methods runs on the real MoleculeIterator; oracle: partition equals the never-eject partition (and the ground-truth classes where a site-based truth exists), every fragment yielded exactly once, no molecule emitted while a later fragment of its group is still to arrive; plus histories on one iterator object (a pass abandoned after k molecules, then a full pass). Schedules exhaustive per input; inputs sampled.',
   note='Trusts the arrival-order model of a coordinate-sorted BAM (tuples sorted by the later mate start) and the precondition argument in DESIGN.md (paired: fragment+read <= cache_size/2; single-end: read < cache_size/2). For the base classes the two pooling methods are not compared with each other.',
   tech='deterministic simulation: exhaustive ejection-schedule enumeration per seeded workload against ground truth and a schedule-free reference run; ddmin replay files'),
 'C12': dict(engine='bins', cat='exploration', design='5 C12',
   text='Seeded tagged BAMs (sites forced onto bin/job boundaries, sites owned by another job than the read start, filtered records) are counted through the real generate_commands/count_fragments_binned/obtain_counts for every bins_per_job in 1..10 plus whole-contig jobs, each under a seeded SimPool completion order and pool width; the returned dict must equal a one-scan reference model (hence be identical across splits and schedules, total = number of counting records). Sampled inputs and orders: evidence, not proof.',
   note='Trusts SimPool (atomic job bodies, pickled args/results) and the reference model; sites stay within max_fragment_size of their read (documented look-around contract).',
   tech='deterministic simulation: seeded job-partition x worker-completion-order exploration under a simulated process pool (chunked task delivery as multiprocessing does it), plus in-process histories (file re-written, other configuration, first configuration again), checked against an executable reference model; one forked process per case'),
 'C18': dict(engine='alleles', cat='exploration', design='5 C18, 12.5',
   text='Seeded VCFs x histories of process lifetimes that share only the on-disk cache directory; each lifetime draws (lazyLoad,use_cache) from all four combinations, possibly another select_samples/ignore_conversions/phased than the previous one, and an access sequence with absent contigs/positions, revisits of evicted contigs and one-read molecules tagged with the resolver (DA assignment). Fault kinds: a lifetime killed at a line of write_cache or hitting EFBIG while it writes the cache (forked child), and a transient EMFILE on the n-th open of a cache file for reading. Every getAllelesAt/has_location/molecule-allele answer (except the one lookup that meets a transient read failure) must equal the eager cache-less resolver of that configuration and a VCF model on clear-cut sites. Sampled histories: evidence, not proof.',
   note='Trusts pysam VCF parsing and the clear-cut-site model. Only durable state (the cache directory) survives a lifetime.',
   tech='deterministic simulation: seeded multi-lifetime histories over durable cache state with crash/EFBIG during cache writes and transient read faults; relational oracle against the eager mode plus a reference model'),
 'C01': dict(engine='demux', cat='exploration', design='5 C01, 12.5',
   text='Seeded FASTQ libraries (all barcode/truncation/N classes, phred 33..126, six header styles, known/unknown/absent sequencing index) are pushed through the real loader loop for one registered strategy at a time, with joint or one-file-per-cell output (HandleLimiter on a SimFS with an fd budget and anomalous clock), with/without a rejects handle and any maxReadPairs cut-off; ~1% of the cases (4% thorough) also go through the real demux.py command line in a forked child: lanes and chunk files listed in any order, -n budget across lanes, --norejects/--scsepf/-fh, a trial run or pre-created folder before the real run, and the chunked -g workflow with its glue step. The recorded I/O history and the produced files are checked for exactly-once, mate synchronisation, order, valid gzip/FASTQ, reject reason + original bases/qualities, and counters/log = records written. Sampled workloads: evidence, not proof.',
   note='Trusts the identity parser (unique cluster coordinates survive every header style). Narrow fault axis (fd budget, prune cadence, cut-off); wide axis is the workload. Paired-only strategies are only fed paired input.',
   tech='deterministic simulation: seeded stream workloads with fd-exhaustion faults on a simulated file system, run histories at the command line, conservation/exactly-once oracle over the recorded I/O history'),
 'C05': dict(engine='tagconserve', cat='exploration', design='5 C05',
   text='Seeded input BAMs (1..12 contigs either side of the 100 kb small-contig threshold in any order, empty contigs, unplaced/half-mapped/orphan reads, invalid fragments, secondary/supplementary copies) are tagged end to end by the real command-line entry point in single-process mode and with --multiprocess under a SimPool (width 1..4, seeded completion order), with and without --no_rejects, for nla/chic/qflag. Oracle: multiset of primary records (identity, mate, sequence, qualities, reference, position, CIGAR) equals the input, output coordinate-sorted with a usable index, every record has a read group declared in the header, each contig with reads and the unplaced bin owned by exactly one job, --no_rejects removes exactly the invalid fragments (generator label + relation to the default run). Sampled inputs/orders: evidence, not proof.',
   note='Trusts SimPool (atomic task bodies, pickled args/results, shared module globals), the identity parser and the generator label of invalid fragments; samtools-binary branches are unreachable here.',
   tech='deterministic simulation: whole tagger pipeline per forked lifetime under a simulated process pool/clock/uuid source, conservation oracle against the input BAM'),
 'C20': dict(engine='status', cat='fault_enumeration', design='5 C20, 12.5',
   text='For each seeded (workload, pipeline single/--multiprocess, method nla/chic, initial state empty/stale-success; special layouts and --no_rejects rotate deterministically) a fault-free traced lifetime records the crash-point map and is itself held to the oracle; then the fault family is enumerated: a true kill (os._exit in the forked child) at every distinct executed (function,line) of the pipeline functions in 5 occurrence classes, an exception at every I/O seam x call-index class x error including failing sort/merge calls that leave partial output behind and a sort failing at all temp locations, worker exception/loss in every job, and (thorough) real EFBIG via RLIMIT_FSIZE at 24 quantiles. Oracle: status says success only if the output BAM exists, has an EOF block, scans to the end, is coordinate sorted, has a usable index and holds the records the statement requires. Enumeration over faults, sampling over workloads.',
   note='Trusts: kill = os._exit at Python line granularity of the watched functions (C-level htslib writes are only split by RLIMIT_FSIZE); exceptions only at I/O seams; SimPool for worker faults. Power-loss/fsync ordering and corruption of stored input bytes are outside the statement.',
   tech='deterministic simulation: crash-point enumeration by line-event tracing with os._exit in forked lifetimes, exception plans at the read and write I/O seams (I/O errors, failing allocation, partial output), simulated worker loss, SIGINT inside the blocking wait for a result, RLIMIT_FSIZE, fault-free recovery lifetime on the debris, initial states left by earlier lifetimes (same or another input); post-mortem oracle on the surviving directory'),
 'C08': dict(engine='parallel', cat='exploration', design='5 C08',
   text='The same seeded input BAM (dense libraries, molecules straddling tile edges, sites on tile boundaries, unplaced and invalid fragments) is tagged serially (S), with --multiprocess contig-per-process (P) and twice through the region-tiling API (T: bp_per_segment 30..5000, bp_per_job, fragment_size >= longest fragment, sometimes > segment) under a SimPool of width 1..8 and seeded completion orders. Oracle: multiset of full canonical records (flags, mate fields, every tag except mi/ix) identical across S/P/T; each molecule written by exactly one job, in T the job whose bin contains its site. Sampled inputs/tilings/orders: evidence, not proof.',
   note='Trusts SimPool and the capture of the CLI-built iterator arguments for the tiling API; margins shorter than a fragment are outside the precondition and not generated.',
   tech='deterministic simulation: serial vs simulated-pool executions (contig jobs and region tilings) under seeded completion orders, record-level equivalence and per-job ownership oracle'),
 'C06': dict(engine='molecules', cat='exploration', design='5 C06',
   text='One seeded library with known truth feeds (api) the real MoleculeIterator for Hamming 0/1/2 x radius 0/>0 x pooling 0/1 x max-fragments cap x NLA/CHIC/plain, on input that may carry stale duplicate bits and RC/af tags, and (chain) histories of 1..3 tagger lifetimes where each tagged BAM is the next input, switching single/--multiprocess between lifetimes, with the command-line Hamming distance at its default or 0. Oracle: soundness of every molecule, exactness vs truth classes where the statement pins the partition (k=0, or no two UMIs of a site within distance 2; cap-aware), exactly one non-duplicate fragment per molecule with RC=0, RC 0..n-1, af=n, TF>=n consistent, overflow pseudo-molecules single; same in every lifetime. Sampled libraries/histories: evidence, not proof.',
   note='Trusts the truth generator and the BAM-level grouping by the per-run molecule identifier of the lifetime that wrote it (mi / (contig, ix)).',
   tech='deterministic simulation: multi-lifetime re-tagging histories (tagged BAM as durable state) plus direct iterator runs against generator ground truth'),
}
NA = {
 'C02': 'Pure function of (strategy layout, read pair): fixed slices of two strings; no stream state, schedule, clock, fault or history for a simulator to choose.',
 'C03': 'Pure function of (whitelist, k, query); the only state is a one-shot lazy load; no interleaving or fault can change an answer.',
 'C04': 'Pure codec round trip (encode header fields, decode them); totality and the 255-byte refusal are input-domain facts, not schedule/fault facts.',
 'C09': 'Pure geometry of one fragment (strand, clip, motif) -> coordinate; a mirror relation over inputs.',
 'C10': 'Integer arithmetic on (coordinate, bin, step); exhaustive enumeration of a finite range is model checking / PBT, not simulation.',
 'C11': 'Pure function of (BAM records, option namespace) -> table; one sequential scan, no jobs, no shared state.',
 'C13': 'Pure function of a multiset of fragments; insertion order is a permutation of the input, the object keeps no memo a simulator could steer.',
 'C14': 'Pure function of (reference, molecule) -> calls and tags.',
 'C15': 'Pure construction of records from one molecule; the pool route is covered by C05/C08.',
 'C17': 'Pure arithmetic on (region, bin size, margin, blacklist) -> tuples; consumed by the C08 tiling runs without a C17 verdict.',
}
def main():
    order = sorted(CLAIMED)
    checks = []
    for pid in order:
        c = CLAIMED[pid]
        checks.append({
            'property_id': pid,
            'quick_cmd': f'{PY} /verif/check.py {pid} --tier quick',
            'thorough_cmd': f'{PY} /verif/check.py {pid} --tier thorough',
            'evidence_file': f'/verif/evidence/{pid}.json',
            'replay_cmd_template': f'{PY} /verif/check.py replay {{path}}',
            'engine': c['engine'],
            'level_claimed': {'category': c['cat'], 'text': c['text'], 'design_ref': 'DESIGN.md section ' + c['design']},
            'level_note': c['note'],
            'technique': c['tech'],
        })
    pending = [p for p in ['C01','C05','C06','C07','C08','C12','C16','C18','C20'] if p not in CLAIMED]
    na = [{'property_id': k, 'reason': v} for k, v in sorted(NA.items())]
    for p in pending:
        na.append({'property_id': p, 'reason': 'engine designed (DESIGN.md section 5) but not built yet; not claimed until its check exists'})
    na.sort(key=lambda x: x['property_id'])
    m = {
        'version': 1,
        'setup_cmd': f'{PY} /verif/tools/setup.py',
        'hooks': {'guard': 'SCMO_VERIF', 'enable': 'no source hooks: every seam is a module attribute, constructor argument or sys.settrace line event (DESIGN.md section 2); SCMO_VERIF is reserved and unused',
                  'baseline_off_cmd': 'cd /repo && /venv/bin/python -m pytest -ra -q -p no:cacheprovider --timeout=900 --continue-on-collection-errors', 'source_commits': [], 'add_only': True},
        'engines': [{'name': CLAIMED[p]['engine'], 'path': f"/verif/simv/engines/{CLAIMED[p]['engine']}.py", 'serves_properties': [p], 'kind_free_text': CLAIMED[p]['tech']} for p in order],
        'checks': checks,
        'not_applicable': na,
        'notes': 'Deterministic simulation with fault injection; see DESIGN.md. exit 0 held / 1 VIOLATION / 2 harness error. known_findings.json lists recorded and fixed defects.',
    }
    with open(os.path.join(HERE, 'MANIFEST.json'), 'w') as f:
        json.dump(m, f, indent=1)
    import jsonschema
    jsonschema.validate(m, json.load(open('/root/.vp/MANIFEST.schema.json')))
    print('MANIFEST.json written,', len(checks), 'checks,', len(na), 'not_applicable')
if __name__ == '__main__':
    main()
