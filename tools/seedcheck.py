#!/venv/bin/python
"""Confirm and evaluate seeded changes produced by independent sub-agents.

  seedcheck.py confirm <prop> <A|B> <src_dir>   # scratch worktree: patch applies, full test suite passes, demo fails with / passes without
  seedcheck.py run <seed_id> [--tier quick]       # git -C /repo apply, run the property's check, git -C /repo checkout -- .
  seedcheck.py runall

Artifacts are kept under /verif/seeded/<prop>-<A|B>/ {patch.diff, demo.py, notes.md, meta.json}.
"""
import json, os, shutil, subprocess, sys, tempfile, time

VERIF = os.path.dirname(os.path.dirname(os.path.abspath(__file__)))
PY = '/venv/bin/python'


def sh(cmd, **kw):
    return subprocess.run(cmd, capture_output=True, text=True, **kw)


def confirm(prop, ab, src):
    sid = f'{prop}-{ab}'
    dst = os.path.join(VERIF, 'seeded', sid)
    os.makedirs(dst, exist_ok=True)
    for f in ('patch.diff', 'demo.py', 'notes.md'):
        shutil.copy(os.path.join(src, f), os.path.join(dst, f))
    wt = tempfile.mkdtemp(prefix=f'sw-{sid}-')
    os.rmdir(wt)
    meta = {'seed_id': sid, 'property': prop, 'confirmed': False}
    try:
        r = sh(['git', '-C', '/repo', 'worktree', 'add', '-q', '--detach', wt, 'HEAD'])
        assert r.returncode == 0, r.stderr
        env = dict(os.environ, PYTHONPATH=wt, PYTHONHASHSEED='0', SCMO_ROOT=wt, SCMO_WORKTREE=wt)
        # some demonstrations derive the package root from their own location (<worktree>/seeded_out/<X>/demo.py): run them from there
        os.makedirs(os.path.join(wt, 'seeded_out', ab), exist_ok=True)
        demo = os.path.join(wt, 'seeded_out', ab, 'demo.py')
        shutil.copy(os.path.join(dst, 'demo.py'), demo)
        r0 = sh([PY, demo], cwd=wt, env=env, timeout=1200)
        meta['demo_without_change_exit'] = r0.returncode
        r = sh(['git', '-C', wt, 'apply', os.path.join(dst, 'patch.diff')])
        meta['patch_applies'] = r.returncode == 0
        if r.returncode:
            meta['apply_error'] = r.stderr[-500:]
            return meta
        meta['files_changed'] = sh(['git', '-C', wt, 'diff', '--stat']).stdout.strip().splitlines()[:-1]
        r1 = sh([PY, demo], cwd=wt, env=env, timeout=1200)
        meta['demo_with_change_exit'] = r1.returncode
        meta['demo_with_change_tail'] = (r1.stdout + r1.stderr)[-600:]
        t = sh([PY, '-m', 'pytest', '-q', '-p', 'no:cacheprovider', '--timeout=900', 'tests/'], cwd=wt, env=env, timeout=3000)
        tail = [l for l in t.stdout.splitlines() if 'passed' in l or 'failed' in l][-1:] or [t.stdout[-200:]]
        meta['test_suite_with_change'] = tail[0].strip()
        meta['tests_pass_with_change'] = t.returncode == 0
        meta['confirmed'] = bool(meta['patch_applies'] and meta['tests_pass_with_change'] and r0.returncode == 0 and r1.returncode == 1)
        meta['what_i_ran'] = [f'git worktree add --detach <scratch> HEAD ({sh(["git","-C","/repo","rev-parse","--short","HEAD"]).stdout.strip()})',
                              'PYTHONPATH=<scratch> python demo.py  (clean: expect 0)', 'git apply patch.diff', 'PYTHONPATH=<scratch> python demo.py (expect 1)',
                              'PYTHONPATH=<scratch> python -m pytest -q tests/ (expect all pass)']
        return meta
    finally:
        sh(['git', '-C', '/repo', 'worktree', 'remove', '--force', wt])
        shutil.rmtree(wt, ignore_errors=True)
        old = {}
        mp = os.path.join(dst, 'meta.json')
        if os.path.exists(mp):
            old = json.load(open(mp))
        old.update(meta)
        json.dump(old, open(mp, 'w'), indent=1)
        print(json.dumps({k: meta.get(k) for k in ('seed_id', 'confirmed', 'patch_applies', 'demo_without_change_exit', 'demo_with_change_exit', 'test_suite_with_change')}))


def run_scratch(sid, tier='quick', props=None):
    """same as run(), but against a scratch copy of the package selected with SCMO_ROOT (used while /repo must stay untouched)"""
    dst = os.path.join(VERIF, 'seeded', sid)
    mp = os.path.join(dst, 'meta.json')
    meta = json.load(open(mp))
    props = props or [meta['property']]
    d = tempfile.mkdtemp(prefix='scmo-seed-')
    try:
        sh(['git', '-C', '/repo', 'worktree', 'add', '-q', '--detach', os.path.join(d, 'wt'), 'HEAD'])
        wt = os.path.join(d, 'wt')
        r = sh(['git', '-C', wt, 'apply', os.path.join(dst, 'patch.diff')])
        assert r.returncode == 0, r.stderr
        for prop in props:
            t = time.time()
            env = dict(os.environ, VERIF_NO_EVIDENCE='1', SCMO_ROOT=wt)
            c = sh([PY, os.path.join(VERIF, 'check.py'), prop, '--tier', tier], env=env, timeout=7200)
            out = c.stdout + c.stderr
            verdict = {0: 'MISSED', 1: 'DETECTED', 2: 'HARNESS-ERROR'}.get(c.returncode, f'exit{c.returncode}')
            lines = out.splitlines()
            first = next((l for l in lines if l.startswith('  class=')), '')
            meta.setdefault('checks', {})[f'{prop}/{tier}'] = {'verdict': verdict, 'seconds': round(time.time() - t, 1), 'first_violation': first[:400],
                                                              'summary': lines[-1][:300] if lines else '', 'how': 'scratch worktree + SCMO_ROOT'}
            print(sid, prop, tier, verdict, f'{time.time() - t:.0f}s', first[:200] or (lines[-1][:200] if lines else ''))
    finally:
        sh(['git', '-C', '/repo', 'worktree', 'remove', '--force', os.path.join(d, 'wt')])
        shutil.rmtree(d, ignore_errors=True)
        json.dump(meta, open(mp, 'w'), indent=1)


def run(sid, tier='quick', props=None):
    dst = os.path.join(VERIF, 'seeded', sid)
    mp = os.path.join(dst, 'meta.json')
    meta = json.load(open(mp))
    props = props or [meta['property']]
    assert sh(['git', '-C', '/repo', 'status', '--porcelain', '-uno']).stdout.strip() == '', '/repo has modifications'
    r = sh(['git', '-C', '/repo', 'apply', os.path.join(dst, 'patch.diff')])
    assert r.returncode == 0, r.stderr
    try:
        for prop in props:
            t = time.time()
            env = dict(os.environ, VERIF_NO_EVIDENCE='1')
            c = sh([PY, os.path.join(VERIF, 'check.py'), prop, '--tier', tier], env=env, timeout=7200)
            out = c.stdout + c.stderr
            verdict = {0: 'MISSED', 1: 'DETECTED', 2: 'HARNESS-ERROR'}.get(c.returncode, f'exit{c.returncode}')
            lines = out.splitlines()
            first = next((l for l in lines if l.startswith('  class=')), '')
            meta.setdefault('checks', {})[f'{prop}/{tier}'] = {'verdict': verdict, 'seconds': round(time.time() - t, 1), 'first_violation': first[:400],
                                                              'summary': lines[-1][:300] if lines else ''}
            print(sid, prop, tier, verdict, f'{time.time() - t:.0f}s', first[:200])
    finally:
        sh(['git', '-C', '/repo', 'checkout', '--', '.'])
        assert sh(['git', '-C', '/repo', 'status', '--porcelain', '-uno']).stdout.strip() == ''
        json.dump(meta, open(mp, 'w'), indent=1)


if __name__ == '__main__':
    if sys.argv[1] == 'confirm':
        confirm(sys.argv[2], sys.argv[3], sys.argv[4])
    elif sys.argv[1] == 'run-scratch':
        props = sys.argv[sys.argv.index('--props') + 1].split(',') if '--props' in sys.argv else None
        run_scratch(sys.argv[2], 'quick', props)
    elif sys.argv[1] == 'run':
        tier = 'quick'
        if '--tier' in sys.argv:
            tier = sys.argv[sys.argv.index('--tier') + 1]
        props = None
        if '--props' in sys.argv:
            props = sys.argv[sys.argv.index('--props') + 1].split(',')
        run(sys.argv[2], tier, props)
    elif sys.argv[1] == 'runall':
        for sid in sorted(os.listdir(os.path.join(VERIF, 'seeded'))):
            m = json.load(open(os.path.join(VERIF, 'seeded', sid, 'meta.json')))
            if m.get('confirmed'):
                run(sid)
