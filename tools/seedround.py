#!/venv/bin/python
"""Prepare one round of independent seeded changes.

  seedround.py <round> <PROP> [<PROP> ..]

For every property: a detached scratch worktree of /repo HEAD at /tmp/seed<round>-<PROP> and a prompt file
/tmp/seed<round>-<PROP>.prompt.txt holding ONLY the property's text, the task and the one-line descriptions of
earlier changes (so that a new sub-agent does not repeat them).  Nothing from /verif's machinery is given away.
After the agent is done:  seedcheck.py confirm <PROP> <letter> /tmp/seed<round>-<PROP>/seeded_out/<A|B>  and
`git -C /repo worktree remove --force /tmp/seed<round>-<PROP>`.
"""
import glob, json, os, subprocess, sys

VERIF = os.path.dirname(os.path.dirname(os.path.abspath(__file__)))
EXTRA = """
Other developers already tried the following ideas for this property - do NOT reuse them or close variations (they are all known and uninteresting now):
%s

Find something genuinely new. Read the code paths end to end (including the third-party pieces the property depends on as they are used here, e.g. how pysam / pysamiterators objects are consumed, how temporary files are named and cleaned, how results travel between processes, how flags and tags are copied) and look for an invariant that only holds by accident today. Good candidates: aliasing of mutable objects, iteration over a container that is modified, reliance on dict/set order, off-by-one at the first/last element or at coordinate 0 / contig end, integer vs string comparisons of tag values, state kept in module-level or class-level variables, a cleanup that removes too much or too little, an early exit that skips bookkeeping, an exception handler that is too broad or too narrow, an option whose value is re-used for a second purpose. At least one of A/B must depend on ordering, on a failure at a particular step, or on state left by an earlier call or run.

IMPORTANT practical notes: never use `git stash` (shared between worktrees) - use `git diff > x.patch; git checkout -- .; git apply x.patch`. Never use pkill/pgrep patterns that could match other people's processes. The test suite leaves untracked files in data/ - remove them at the end. Run each tagging / demultiplexing command of your demo in its own subprocess.
"""


def main():
    rnd, props = sys.argv[1], sys.argv[2:]
    base = open(os.path.join(VERIF, 'tools', 'seed_prompt.txt')).read()
    P = {json.loads(l)['id']: json.loads(l) for l in open(os.path.join(VERIF, 'properties.jsonl'))}
    used = {}
    for d in sorted(glob.glob(os.path.join(VERIF, 'seeded', '*', 'meta.json'))):
        m = json.load(open(d))
        used.setdefault(m['property'], []).append(m.get('change', ''))
    for p in props:
        wt = f'/tmp/seed{rnd}-{p}'
        r = subprocess.run(['git', '-C', '/repo', 'worktree', 'add', '-q', '--detach', wt, 'HEAD'], capture_output=True, text=True)
        assert r.returncode == 0, r.stderr
        prop = {k: v for k, v in P[p].items() if k not in ('source', 'added_in_round')}
        t = base.replace('PROPERTY_JSON', json.dumps(prop, indent=1))
        t = t.replace('PRIOR_IDEAS', EXTRA % '\n'.join('  - ' + x for x in used.get(p, [])) if used.get(p) else '')
        t = t.replace('WORKTREE', wt)
        open(f'{wt}.prompt.txt', 'w').write(t)
        print(wt, len(t))


if __name__ == '__main__':
    main()
