#!/venv/bin/python
"""No-false-alarm soak: every quick (or thorough) check over a range of VERIF_SEED values on the current tree.
  soak.py <first_seed> <last_seed> [--tier quick] [--props C01,C05]
Prints one line per (seed, property); exits 1 if any check exited non-zero."""
import os, subprocess, sys, time
HERE = os.path.dirname(os.path.dirname(os.path.abspath(__file__)))
a, b = int(sys.argv[1]), int(sys.argv[2])
tier = sys.argv[sys.argv.index('--tier') + 1] if '--tier' in sys.argv else 'quick'
props = sys.argv[sys.argv.index('--props') + 1].split(',') if '--props' in sys.argv else ['C01', 'C05', 'C06', 'C07', 'C08', 'C12', 'C16', 'C18', 'C19', 'C20']
bad = 0
for seed in range(a, b + 1):
    for p in props:
        t = time.time()
        env = dict(os.environ, VERIF_SEED=str(seed), VERIF_NO_EVIDENCE='1')
        r = subprocess.run(['/venv/bin/python', os.path.join(HERE, 'check.py'), p, '--tier', tier], env=env, capture_output=True, text=True)
        lines = (r.stdout + r.stderr).strip().splitlines()
        print(f'seed={seed} {p} exit={r.returncode} {time.time() - t:.0f}s {lines[-1][:200] if lines else ""}', flush=True)
        if r.returncode:
            bad += 1
            for l in lines[-8:]:
                print('    ' + l[:600], flush=True)
print(f'SOAK done: {bad} non-zero exits')
sys.exit(1 if bad else 0)
