#!/venv/bin/python
"""Sensitivity sweep: run the quick check of each mutant's property against a mutated scratch copy.

  sweep.py [--props C01,C05] [--ids C01-m1,..] [--max-runs N] [--jobs J]

Writes /verif/mutants/results.json (detected / missed / harness-error, seconds) and prints a table.
Mutants marked "expect": "missed" are controls that do NOT break the property: a detection there is a false alarm.
"""
import argparse, json, os, shutil, subprocess, sys, tempfile, time
import concurrent.futures as cf

HERE = os.path.dirname(os.path.dirname(os.path.abspath(__file__)))


def run_one(m, max_runs, procs):
    d = tempfile.mkdtemp(prefix='scmo-mut-')
    try:
        shutil.copytree('/repo/singlecellmultiomics', os.path.join(d, 'singlecellmultiomics'), ignore=shutil.ignore_patterns('__pycache__'))
        if m.get('patch'):
            r = subprocess.run(['patch', '-p1', '-d', d, '-i', os.path.join(HERE, m['patch'])], capture_output=True, text=True)
            if r.returncode:
                return m['id'], 'DID-NOT-APPLY', 0.0, r.stdout[-200:]
            f = os.path.join(d, 'singlecellmultiomics', '__init__.py')
        else:
            f = os.path.join(d, m['file'])
            before = open(f, newline='').read()
            expr = m['sed']
            subprocess.run(['sed', '-i', expr, f], check=True)
            after = open(f, newline='').read()
            if after == before:
                return m['id'], 'DID-NOT-APPLY', 0.0, ''
        # compiles?
        r = subprocess.run(['/venv/bin/python', '-m', 'py_compile', f], capture_output=True, text=True)
        if r.returncode:
            return m['id'], 'DOES-NOT-COMPILE', 0.0, r.stderr[-300:]
        env = dict(os.environ, SCMO_ROOT=d, VERIF_NO_EVIDENCE='1', VERIF_PROCS=str(procs))
        t = time.time()
        cmd = ['/venv/bin/python', os.path.join(HERE, 'check.py'), m['property'], '--tier', 'quick']
        if max_runs:
            cmd += ['--max-runs', str(max_runs)]
        r = subprocess.run(cmd, env=env, capture_output=True, text=True, timeout=3600)
        dt = time.time() - t
        verdict = {0: 'MISSED', 1: 'DETECTED', 2: 'HARNESS-ERROR'}.get(r.returncode, f'exit{r.returncode}')
        lines = [l for l in (r.stdout + r.stderr).splitlines() if l.strip()]
        first = next((l for l in lines if l.startswith('  class=')), lines[-1] if lines else '')
        return m['id'], verdict, dt, first[:300]
    finally:
        shutil.rmtree(d, ignore_errors=True)


def main():
    ap = argparse.ArgumentParser()
    ap.add_argument('--props')
    ap.add_argument('--ids')
    ap.add_argument('--max-runs', type=int, default=None)
    ap.add_argument('--jobs', type=int, default=4)
    a = ap.parse_args()
    ms = json.load(open(os.path.join(HERE, 'mutants', 'mutants.json')))
    if a.props:
        ms = [m for m in ms if m['property'] in a.props.split(',')]
    if a.ids:
        ms = [m for m in ms if m['id'] in a.ids.split(',')]
    procs = max(2, 16 // a.jobs)
    res = {}
    with cf.ThreadPoolExecutor(max_workers=a.jobs) as ex:
        futs = {ex.submit(run_one, m, a.max_runs, procs): m for m in ms}
        for fut in cf.as_completed(futs):
            m = futs[fut]
            try:
                mid, verdict, dt, first = fut.result()
            except Exception as e:
                mid, verdict, dt, first = m['id'], 'SWEEP-ERROR', 0.0, repr(e)[:200]
            exp = m.get('expect', 'detected').upper()
            ok = (verdict == exp) or (exp == 'DETECTED' and verdict == 'DETECTED')
            res[mid] = {'verdict': verdict, 'expected': exp, 'as_expected': ok, 'seconds': round(dt, 1), 'note': m['note'], 'first': first}
            print(f"{mid:8s} {verdict:16s} expected={exp:9s} {'ok ' if ok else 'XX '} {dt:6.1f}s  {m['note'][:70]}", flush=True)
    out = os.path.join(HERE, 'mutants', 'results.json')
    old = {}
    if os.path.exists(out):
        old = json.load(open(out))
    old.update(res)
    json.dump(dict(sorted(old.items())), open(out, 'w'), indent=1)
    bad = [k for k, v in res.items() if not v['as_expected']]
    print(f'{len(res) - len(bad)}/{len(res)} as expected; not as expected: {bad}')
    return 1 if bad else 0


if __name__ == '__main__':
    sys.exit(main())
