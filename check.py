#!/venv/bin/python
"""Entry point of the deterministic-simulation checks.

  check.py <ID> [--tier quick|thorough] [--procs N] [--max-runs N]
  check.py replay <path>
  check.py selftest [--props C19,C16] [--n 32]
  check.py digests <ID> --n N --procs P     (used by selftest)

exit 0 held (or only KNOWN-FINDING lines) / 1 VIOLATION / 2 harness error
"""
import argparse
import json
import os
import subprocess
import sys

HERE = os.path.dirname(os.path.abspath(__file__))


def reexec_if_needed():
    if os.environ.get('PYTHONHASHSEED') is None:
        env = dict(os.environ)
        env['PYTHONHASHSEED'] = '0'
        os.execve(sys.executable, [sys.executable] + sys.argv, env)


def main():
    reexec_if_needed()
    sys.path.insert(0, HERE)
    root = os.environ.get('SCMO_ROOT')
    if root:
        sys.path.insert(0, root)
    os.environ.setdefault('OMP_NUM_THREADS', '1')
    os.environ.setdefault('OPENBLAS_NUM_THREADS', '1')
    os.environ.setdefault('MKL_NUM_THREADS', '1')
    os.environ.setdefault('MPLBACKEND', 'Agg')
    ap = argparse.ArgumentParser()
    ap.add_argument('what')
    ap.add_argument('arg', nargs='?')
    ap.add_argument('--tier', default=os.environ.get('VERIF_TIER', 'quick'), choices=['quick', 'thorough'])
    ap.add_argument('--procs', type=int, default=None)
    ap.add_argument('--max-runs', type=int, default=None)
    ap.add_argument('--n', type=int, default=32)
    ap.add_argument('--props', default=None)
    a = ap.parse_args()
    seed = int(os.environ.get('VERIF_SEED', '0') or 0)

    from simv import driver
    try:
        if a.what == 'replay':
            return driver.replay_main(a.arg)
        if a.what == 'digests':
            d = driver.digests(a.arg, a.tier, seed, a.n, a.procs or 4)
            print('DIGESTS ' + json.dumps(d, sort_keys=True))
            return 0
        if a.what == 'selftest':
            return selftest(a, seed)
        print(f'VERIF_SEED={seed} property={a.what} tier={a.tier} PYTHONHASHSEED={os.environ.get("PYTHONHASHSEED")}')
        return driver.run_check(a.what, a.tier, seed, procs=a.procs, max_runs=a.max_runs)
    except driver.HarnessError as e:
        print(f'HARNESS-ERROR {e}', file=sys.stderr)
        return 2


def selftest(a, seed):
    """same seed -> same digest: fresh interpreters, two hash seeds, two shard counts"""
    from simv import driver
    props = a.props.split(',') if a.props else sorted(driver.ENGINES)
    bad = 0
    for p in props:
        try:
            driver.load_engine(p)
        except ImportError:
            print(f'selftest {p}: engine not built, skipped')
            continue
        res = []
        for hs, procs in (('0', 1), ('0', 16), ('1', 16), ('12345', 3)):
            env = dict(os.environ)
            env['PYTHONHASHSEED'] = hs
            r = subprocess.run([sys.executable, os.path.join(HERE, 'check.py'), 'digests', p, '--n', str(a.n),
                                '--procs', str(procs), '--tier', a.tier], capture_output=True, text=True, env=env, timeout=3600)
            line = [l for l in r.stdout.splitlines() if l.startswith('DIGESTS ')]
            if r.returncode != 0 or not line:
                print(f'selftest {p}: digests run failed (hashseed={hs} procs={procs})\n{r.stderr[-1500:]}')
                bad += 1
                break
            res.append(json.loads(line[0][8:]))
        else:
            diff = [k for k in res[0] if any(r.get(k) != res[0][k] for r in res[1:])]
            if diff:
                print(f'selftest {p}: NONDETERMINISTIC for run indices {diff[:10]}')
                bad += 1
            else:
                print(f'selftest {p}: {len(res[0])} seeds x 4 executions (hash seeds 0/0/1/12345, shards 1/16/16/3): identical digests')
    return 2 if bad else 0


if __name__ == '__main__':
    sys.exit(main())
