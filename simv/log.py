"""Append-only event log with a canonical digest.

Logging never reads a real clock and never draws from a PRNG.
"""
import hashlib
import json


def canon(o):
    if isinstance(o, (set, frozenset)):
        return sorted((canon(x) for x in o), key=lambda x: json.dumps(x, sort_keys=True))
    if isinstance(o, (list, tuple)):
        return [canon(x) for x in o]
    if isinstance(o, dict):
        return {str(k): canon(v) for k, v in sorted(o.items(), key=lambda kv: str(kv[0]))}
    if isinstance(o, float):
        return round(o, 9)
    if isinstance(o, bytes):
        return o.decode('latin1')
    if isinstance(o, (str, int, bool)) or o is None:
        return o
    return repr(o)


class EventLog:
    def __init__(self, header=None, keep=400):
        self._h = hashlib.sha256()
        self.n = 0
        self.keep = keep
        self.head = []
        if header is not None:
            self.add('seed', header)

    def add(self, kind, *payload):
        ev = [kind] + [canon(p) for p in payload]
        s = json.dumps(ev, sort_keys=True, separators=(',', ':'))
        self._h.update(s.encode())
        self._h.update(b'\n')
        self.n += 1
        if len(self.head) < self.keep:
            self.head.append(ev)

    def digest(self):
        return self._h.hexdigest()
