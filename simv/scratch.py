"""per-run scratch directories outside /repo and /verif, removed by the run that made them"""
import os
import shutil
import tempfile
import contextlib


def base():
    b = os.environ.get('VERIF_SCRATCH')
    if b:
        os.makedirs(b, exist_ok=True)
        return b
    return '/dev/shm' if os.path.isdir('/dev/shm') and os.access('/dev/shm', os.W_OK) else tempfile.gettempdir()


def _keyed(key):
    """deterministic directory name for a run (absolute scratch paths end up in @PG header lines written by samtools,
    so a random name makes compressed file sizes vary by a byte or two); first free suffix, normally 0"""
    import hashlib
    h = hashlib.sha256(str(key).encode()).hexdigest()[:10]
    for k in range(100):
        d = os.path.join(base(), f'simv-{h}{k:02d}')
        try:
            os.mkdir(d, 0o700)
            return d
        except FileExistsError:
            try:        # left behind by a killed run: older than 15 minutes -> reclaim
                import time
                if time.time() - os.path.getmtime(d) > 900:
                    shutil.rmtree(d, ignore_errors=True)
                    os.mkdir(d, 0o700)
                    return d
            except OSError:
                pass
            continue
    return tempfile.mkdtemp(prefix='simv-', dir=base())


@contextlib.contextmanager
def scratch(prefix='simv-', key=None):
    d = _keyed(key) if key is not None else tempfile.mkdtemp(prefix=prefix, dir=base())
    try:
        yield d
    finally:
        shutil.rmtree(d, ignore_errors=True)
