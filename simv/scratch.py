"""per-run scratch directories outside /repo and /verif, removed by the run that made them"""
import os
import shutil
import tempfile
import contextlib


def base():
    b = os.environ.get('VERIF_SCRATCH')
    if b:
        os.makedirs(b, exist_ok=True)
        return b
    return '/dev/shm' if os.path.isdir('/dev/shm') and os.access('/dev/shm', os.W_OK) else tempfile.gettempdir()


@contextlib.contextmanager
def scratch(prefix='simv-'):
    d = tempfile.mkdtemp(prefix=prefix, dir=base())
    try:
        yield d
    finally:
        shutil.rmtree(d, ignore_errors=True)
