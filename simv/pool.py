"""SimPool - in-process stand-in for multiprocessing.Pool whose schedule the simulator owns.

Runs the repository's *real* task function; task argument and result make a pickle
round trip (process isolation); which running task completes next, how many results
pile up before the consumer sees one, worker loss and worker exceptions are decided
by the Scheduler (seeded or explicit decisions).

Model (matches multiprocessing.Pool as the repo uses it):
  * the task iterable is drained eagerly; tasks start in submission order on free slots
  * imap_unordered delivers results in completion order; imap in submission order
  * an exception in the task body is re-raised at the consumer's next() for that result
  * a lost worker's result never arrives: the consumer would block for ever -> SimHang
"""
import pickle


class SimHang(BaseException):
    """the consumer waits for a result that will never arrive (BaseException: repo code must not swallow it)"""


class Scheduler:
    """source of every scheduling decision; seeded, fifo or explicit"""

    def __init__(self, spec, rng, log):
        spec = spec or {'policy': 'seeded'}
        self.policy = spec.get('policy', 'seeded')
        self.decisions = list(spec.get('decisions') or [])
        self.rng = rng
        self.log = log
        self.trace = []
        self.steps = 0

    def choose(self, n, what=''):
        """pick one of n enabled events"""
        self.steps += 1
        if n <= 1:
            return 0
        elif self.policy == 'fifo':
            c = 0
        elif self.policy == 'explicit':
            c = (self.decisions.pop(0) if self.decisions else 0) % n
        else:
            c = self.rng.randrange(n)
        self.trace.append(c)
        return c

    def spec_explicit(self):
        return {'policy': 'explicit', 'decisions': list(self.trace)}


class _Iter:
    def __init__(self, pool, func, tasks, ordered):
        self.pool, self.func, self.ordered = pool, func, ordered
        self.tasks = tasks
        self.n = len(tasks)
        self.next_start = 0
        self.running = []        # task indices
        self.ready = []          # completed, undelivered: (idx, kind, payload)
        self.delivered = 0
        self.next_ordered = 0
        self.lost = set()

    def __iter__(self):
        return self

    def _enabled(self):
        ev = []
        if self.next_start < self.n and len(self.running) < self.pool.processes:
            ev.append(('start', self.next_start))
        for i in self.running:
            ev.append(('complete', i))
        return ev

    def _step(self):
        ev = self._enabled()
        if not ev:
            return False
        sch = self.pool.sched
        kind, i = ev[sch.choose(len(ev))]
        pid = self.pool.pool_id
        if kind == 'start':
            self.next_start += 1
            self.running.append(i)
            sch.log.add('pool', pid, 'start', i)
        else:
            self.running.remove(i)
            self._complete(i)
        return True

    def _complete(self, i):
        sch = self.pool.sched
        pid = self.pool.pool_id
        fault = self.pool.faults.get((pid, i)) or self.pool.faults.get(('*', i))
        if fault == 'lost-before':
            self.lost.add(i)
            sch.log.add('pool', pid, 'worker-lost-before', i)
            self.pool.fired('worker_lost')
            return
        try:
            arg = pickle.loads(pickle.dumps(self.tasks[i]))
        except Exception as e:   # unpicklable argument fails in the feeder, as across a real process boundary
            self.ready.append((i, 'exc', e))
            sch.log.add('pool', pid, 'unpicklable-arg', i)
            return
        try:
            if fault == 'exception':
                self.pool.fired('worker_exception')
                raise self.pool.exception_factory(i)
            hook = self.pool.task_hook
            res = hook(self.func, arg, pid, i) if hook else self.func(arg)
            payload = ('ok', pickle.loads(pickle.dumps(res)))
        except Exception as e:
            try:
                e2 = pickle.loads(pickle.dumps(e))
            except Exception:
                e2 = RuntimeError(repr(e))
            payload = ('exc', e2)
        if fault == 'lost-after':
            self.lost.add(i)
            sch.log.add('pool', pid, 'worker-lost-after', i)
            self.pool.fired('worker_lost')
            return
        self.ready.append((i,) + payload)
        sch.log.add('pool', pid, 'complete', i, payload[0])

    def __next__(self):
        sch = self.pool.sched
        while True:
            if self.delivered + len(self.lost) >= self.n and not self.ready:
                if self.lost:
                    sch.log.add('pool', self.pool.pool_id, 'HUNG', sorted(self.lost))
                    raise SimHang(f'pool {self.pool.pool_id}: results of tasks {sorted(self.lost)} never arrive')
                raise StopIteration
            deliverable = None
            if self.ordered:
                for k, r in enumerate(self.ready):
                    if r[0] == self.next_ordered:
                        deliverable = k
                        break
                if deliverable is None and self.next_ordered in self.lost:
                    sch.log.add('pool', self.pool.pool_id, 'HUNG', sorted(self.lost))
                    raise SimHang(f'pool {self.pool.pool_id}: ordered result {self.next_ordered} never arrives')
            elif self.ready:
                deliverable = 0
            # let more work happen before the consumer looks (piles up ready results)
            if deliverable is not None and self._enabled() and sch.choose(2, 'pile') == 1:
                self._step()
                continue
            if deliverable is not None:
                i, kind, payload = self.ready.pop(deliverable)
                self.delivered += 1
                self.next_ordered += 1
                sch.log.add('pool', self.pool.pool_id, 'deliver', i, kind)
                self.pool.order.append(i)
                if kind == 'exc':
                    raise payload
                return payload
            if not self._step():
                if self.lost:
                    sch.log.add('pool', self.pool.pool_id, 'HUNG', sorted(self.lost))
                    raise SimHang(f'pool {self.pool.pool_id}: results of tasks {sorted(self.lost)} never arrive')
                raise StopIteration


class SimPoolFactory:
    """bind `factory.Pool` (or the factory itself, it is callable) to the name the repo module uses"""

    def __init__(self, sched, faults=None, exception_factory=None, task_hook=None, width=None):
        self.sched = sched
        self.faults = dict(faults or {})     # (pool_id or '*', task index) -> 'exception' | 'lost-before' | 'lost-after'
        self.exception_factory = exception_factory or (lambda i: RuntimeError(f'injected worker failure in task {i}'))
        self.task_hook = task_hook
        self.width = width
        self.pools = []
        self.fired_counts = {}
        self.cpu_count = lambda: 4

    def fired(self, k):
        self.fired_counts[k] = self.fired_counts.get(k, 0) + 1

    def Pool(self, processes=None, *a, **k):
        p = SimPool(self, processes)
        self.pools.append(p)
        return p

    __call__ = Pool

    # the repo sometimes uses multiprocessing.<other>; delegate
    def __getattr__(self, name):
        import multiprocessing
        return getattr(multiprocessing, name)


class SimPool:
    def __init__(self, factory, processes):
        self.factory = factory
        self.sched = factory.sched
        self.faults = factory.faults
        self.exception_factory = factory.exception_factory
        self.task_hook = factory.task_hook
        self.pool_id = len(factory.pools)
        self.processes = factory.width or processes or 4
        self.order = []
        self.sched.log.add('pool', self.pool_id, 'create', self.processes)

    def fired(self, k):
        self.factory.fired(k)

    def __enter__(self):
        return self

    def __exit__(self, *a):
        self.sched.log.add('pool', self.pool_id, 'exit')
        return False

    def imap_unordered(self, func, iterable, chunksize=1):
        return _Iter(self, func, list(iterable), ordered=False)

    def imap(self, func, iterable, chunksize=1):
        return _Iter(self, func, list(iterable), ordered=True)

    def map(self, func, iterable, chunksize=None):
        return list(self.imap(func, iterable))

    def close(self):
        pass

    def join(self):
        pass

    def terminate(self):
        pass
