"""SimPool - in-process stand-in for multiprocessing.Pool whose schedule the simulator owns.

Runs the repository's *real* task function; task argument and result make a pickle
round trip (process isolation); which running task completes next, how many results
pile up before the consumer sees one, worker loss and worker exceptions are decided
by the Scheduler (seeded or explicit decisions).

Model (matches multiprocessing.Pool as the repo uses it):
  * the task iterable is drained eagerly; tasks start in submission order on free slots
  * imap_unordered delivers results in completion order; imap in submission order
  * an exception in the task body is re-raised at the consumer's next() for that result
  * a lost worker's result never arrives: the consumer would block for ever -> SimHang
  * chunksize > 1: consecutive tasks share one pickle message and one worker (see _ChunkIter)
"""
import pickle


class SimHang(BaseException):
    """the consumer waits for a result that will never arrive (BaseException: repo code must not swallow it)"""


class Scheduler:
    """source of every scheduling decision; seeded, fifo or explicit"""

    def __init__(self, spec, rng, log):
        spec = spec or {'policy': 'seeded'}
        self.policy = spec.get('policy', 'seeded')
        self.decisions = list(spec.get('decisions') or [])
        self.rng = rng
        self.log = log
        self.trace = []
        self.steps = 0

    def choose(self, n, what=''):
        """pick one of n enabled events"""
        self.steps += 1
        if n <= 1:
            return 0
        elif self.policy == 'fifo':
            c = 0
        elif self.policy == 'explicit':
            c = (self.decisions.pop(0) if self.decisions else 0) % n
        else:
            c = self.rng.randrange(n)
        self.trace.append(c)
        return c

    def spec_explicit(self):
        return {'policy': 'explicit', 'decisions': list(self.trace)}


def _interrupt_point(it):
    """SIGINT while the consumer waits for its k-th result: KeyboardInterrupt surfaces inside the blocking next(), as with the real pool"""
    k = getattr(it, 'next_calls', 0)
    it.next_calls = k + 1
    pool = it.pool
    if (pool.faults.get((pool.pool_id, k)) or pool.faults.get(('*', k))) == 'interrupt':
        pool.sched.log.add('pool', pool.pool_id, 'SIGINT-while-waiting', k)
        pool.fired('interrupt')
        raise KeyboardInterrupt()


class _Iter:
    def __init__(self, pool, func, tasks, ordered):
        self.pool, self.func, self.ordered = pool, func, ordered
        self.tasks = tasks
        self.n = len(tasks)
        self.next_start = 0
        self.running = []        # task indices
        self.ready = []          # completed, undelivered: (idx, kind, payload)
        self.delivered = 0
        self.next_ordered = 0
        self.lost = set()

    def __iter__(self):
        return self

    def _enabled(self):
        ev = []
        if self.next_start < self.n and len(self.running) < self.pool.processes:
            ev.append(('start', self.next_start))
        for i in self.running:
            ev.append(('complete', i))
        return ev

    def _step(self):
        ev = self._enabled()
        if not ev:
            return False
        sch = self.pool.sched
        kind, i = ev[sch.choose(len(ev))]
        pid = self.pool.pool_id
        if kind == 'start':
            self.next_start += 1
            self.running.append(i)
            sch.log.add('pool', pid, 'start', i)
        else:
            self.running.remove(i)
            self._complete(i)
        return True

    def _complete(self, i):
        sch = self.pool.sched
        pid = self.pool.pool_id
        fault = self.pool.faults.get((pid, i)) or self.pool.faults.get(('*', i))
        if fault == 'lost-before':
            self.lost.add(i)
            sch.log.add('pool', pid, 'worker-lost-before', i)
            self.pool.fired('worker_lost')
            return
        try:
            arg = pickle.loads(pickle.dumps(self.tasks[i]))
        except Exception as e:   # unpicklable argument fails in the feeder, as across a real process boundary
            self.ready.append((i, 'exc', e))
            sch.log.add('pool', pid, 'unpicklable-arg', i)
            return
        try:
            if fault == 'exception':
                self.pool.fired('worker_exception')
                raise self.pool.exception_factory(i)
            hook = self.pool.task_hook
            res = hook(self.func, arg, pid, i) if hook else self.func(arg)
            payload = ('ok', pickle.loads(pickle.dumps(res)))
        except Exception as e:
            try:
                e2 = pickle.loads(pickle.dumps(e))
            except Exception:
                e2 = RuntimeError(repr(e))
            payload = ('exc', e2)
        if fault == 'lost-after':
            self.lost.add(i)
            sch.log.add('pool', pid, 'worker-lost-after', i)
            self.pool.fired('worker_lost')
            return
        self.ready.append((i,) + payload)
        sch.log.add('pool', pid, 'complete', i, payload[0])

    def __next__(self):
        sch = self.pool.sched
        _interrupt_point(self)
        while True:
            if self.delivered + len(self.lost) >= self.n and not self.ready:
                if self.lost:
                    sch.log.add('pool', self.pool.pool_id, 'HUNG', sorted(self.lost))
                    raise SimHang(f'pool {self.pool.pool_id}: results of tasks {sorted(self.lost)} never arrive')
                raise StopIteration
            deliverable = None
            if self.ordered:
                for k, r in enumerate(self.ready):
                    if r[0] == self.next_ordered:
                        deliverable = k
                        break
                if deliverable is None and self.next_ordered in self.lost:
                    sch.log.add('pool', self.pool.pool_id, 'HUNG', sorted(self.lost))
                    raise SimHang(f'pool {self.pool.pool_id}: ordered result {self.next_ordered} never arrives')
            elif self.ready:
                deliverable = 0
            # let more work happen before the consumer looks (piles up ready results)
            if deliverable is not None and self._enabled() and sch.choose(2, 'pile') == 1:
                self._step()
                continue
            if deliverable is not None:
                i, kind, payload = self.ready.pop(deliverable)
                self.delivered += 1
                self.next_ordered += 1
                sch.log.add('pool', self.pool.pool_id, 'deliver', i, kind)
                self.pool.order.append(i)
                if kind == 'exc':
                    raise payload
                return payload
            if not self._step():
                if self.lost:
                    sch.log.add('pool', self.pool.pool_id, 'HUNG', sorted(self.lost))
                    raise SimHang(f'pool {self.pool.pool_id}: results of tasks {sorted(self.lost)} never arrive')
                raise StopIteration


class _ChunkIter:
    """imap / imap_unordered with chunksize > 1, as multiprocessing does it: consecutive tasks travel to a worker in ONE message
    (objects shared between the tasks of a chunk stay shared inside the worker), the worker runs them one after the other and sends
    one result message; an exception in any task fails the whole chunk and ends the iteration at the consumer."""

    def __init__(self, pool, func, tasks, ordered, chunksize):
        self.pool, self.func, self.ordered = pool, func, ordered
        self.tasks = tasks
        self.units = [list(range(i, min(i + chunksize, len(tasks)))) for i in range(0, len(tasks), chunksize)]
        self.n = len(self.units)
        self.next_start = 0
        self.running = []
        self.ready = []          # (unit, kind, payload)
        self.buffer = []         # items of the chunk being handed out: (task index, value)
        self.delivered = 0
        self.next_ordered = 0
        self.lost = set()
        self.finished = False

    def __iter__(self):
        return self

    def _enabled(self):
        ev = []
        if self.next_start < self.n and len(self.running) < self.pool.processes:
            ev.append(('start', self.next_start))
        for u in self.running:
            ev.append(('complete', u))
        return ev

    def _step(self):
        ev = self._enabled()
        if not ev:
            return False
        sch = self.pool.sched
        kind, u = ev[sch.choose(len(ev))]
        pid = self.pool.pool_id
        if kind == 'start':
            self.next_start += 1
            self.running.append(u)
            sch.log.add('pool', pid, 'start-chunk', u)
        else:
            self.running.remove(u)
            self._complete(u)
        return True

    def _complete(self, u):
        sch = self.pool.sched
        pid = self.pool.pool_id
        idx = self.units[u]
        faults = {i: (self.pool.faults.get((pid, i)) or self.pool.faults.get(('*', i))) for i in idx}
        if any(f == 'lost-before' for f in faults.values()):
            self.lost.add(u)
            sch.log.add('pool', pid, 'worker-lost-before', u)
            self.pool.fired('worker_lost')
            return
        try:
            args = pickle.loads(pickle.dumps([self.tasks[i] for i in idx]))      # one message: sharing inside the chunk survives
        except Exception as e:
            self.ready.append((u, 'exc', e))
            sch.log.add('pool', pid, 'unpicklable-arg', u)
            return
        try:
            out = []
            for i, arg in zip(idx, args):
                if faults[i] == 'exception':
                    self.pool.fired('worker_exception')
                    raise self.pool.exception_factory(i)
                hook = self.pool.task_hook
                out.append(hook(self.func, arg, pid, i) if hook else self.func(arg))
            payload = ('ok', pickle.loads(pickle.dumps(out)))
        except Exception as e:
            try:
                e2 = pickle.loads(pickle.dumps(e))
            except Exception:
                e2 = RuntimeError(repr(e))
            payload = ('exc', e2)
        if any(f == 'lost-after' for f in faults.values()):
            self.lost.add(u)
            sch.log.add('pool', pid, 'worker-lost-after', u)
            self.pool.fired('worker_lost')
            return
        self.ready.append((u,) + payload)
        sch.log.add('pool', pid, 'complete-chunk', u, payload[0])

    def __next__(self):
        sch = self.pool.sched
        _interrupt_point(self)
        pid = self.pool.pool_id
        while True:
            if self.buffer:
                i, v = self.buffer.pop(0)
                sch.log.add('pool', pid, 'deliver', i, 'ok')
                self.pool.order.append(i)
                return v
            if self.finished:
                raise StopIteration
            if self.delivered + len(self.lost) >= self.n and not self.ready:
                if self.lost:
                    sch.log.add('pool', pid, 'HUNG', sorted(self.lost))
                    raise SimHang(f'pool {pid}: results of chunks {sorted(self.lost)} never arrive')
                raise StopIteration
            deliverable = None
            if self.ordered:
                for k, r in enumerate(self.ready):
                    if r[0] == self.next_ordered:
                        deliverable = k
                        break
                if deliverable is None and self.next_ordered in self.lost:
                    sch.log.add('pool', pid, 'HUNG', sorted(self.lost))
                    raise SimHang(f'pool {pid}: ordered chunk {self.next_ordered} never arrives')
            elif self.ready:
                deliverable = 0
            if deliverable is not None and self._enabled() and sch.choose(2, 'pile') == 1:
                self._step()
                continue
            if deliverable is not None:
                u, kind, payload = self.ready.pop(deliverable)
                self.delivered += 1
                self.next_ordered += 1
                if kind == 'exc':
                    sch.log.add('pool', pid, 'deliver-chunk', u, 'exc')
                    self.finished = True      # the generator wrapping the chunk results dies with the exception
                    raise payload
                self.buffer = list(zip(self.units[u], payload))
                continue
            if not self._step():
                if self.lost:
                    sch.log.add('pool', pid, 'HUNG', sorted(self.lost))
                    raise SimHang(f'pool {pid}: results of chunks {sorted(self.lost)} never arrive')
                raise StopIteration


class SimPoolFactory:
    """bind `factory.Pool` (or the factory itself, it is callable) to the name the repo module uses"""

    def __init__(self, sched, faults=None, exception_factory=None, task_hook=None, width=None):
        self.sched = sched
        self.faults = dict(faults or {})     # (pool_id or '*', task index) -> 'exception' | 'lost-before' | 'lost-after'
        self.exception_factory = exception_factory or (lambda i: RuntimeError(f'injected worker failure in task {i}'))
        self.task_hook = task_hook
        self.width = width
        self.pools = []
        self.fired_counts = {}
        self.cpu_count = lambda: 4

    def fired(self, k):
        self.fired_counts[k] = self.fired_counts.get(k, 0) + 1

    def Pool(self, processes=None, *a, **k):
        p = SimPool(self, processes)
        self.pools.append(p)
        return p

    __call__ = Pool

    # the repo sometimes uses multiprocessing.<other>; delegate
    def __getattr__(self, name):
        import multiprocessing
        return getattr(multiprocessing, name)


class SimPool:
    def __init__(self, factory, processes):
        self.factory = factory
        self.sched = factory.sched
        self.faults = factory.faults
        self.exception_factory = factory.exception_factory
        self.task_hook = factory.task_hook
        self.pool_id = len(factory.pools)
        self.processes = factory.width or processes or 4
        self.order = []
        self.sched.log.add('pool', self.pool_id, 'create', self.processes)

    def fired(self, k):
        self.factory.fired(k)

    def __enter__(self):
        return self

    def __exit__(self, *a):
        self.sched.log.add('pool', self.pool_id, 'exit')
        return False

    def imap_unordered(self, func, iterable, chunksize=1):
        if chunksize and chunksize > 1:
            return _ChunkIter(self, func, list(iterable), False, chunksize)
        return _Iter(self, func, list(iterable), ordered=False)

    def imap(self, func, iterable, chunksize=1):
        if chunksize and chunksize > 1:
            return _ChunkIter(self, func, list(iterable), True, chunksize)
        return _Iter(self, func, list(iterable), ordered=True)

    def map(self, func, iterable, chunksize=None):
        return list(self.imap(func, iterable))

    def close(self):
        pass

    def join(self):
        pass

    def terminate(self):
        pass


# ------------------------------------------------------------------------------------------------
# ForkPool: real worker *processes* (private module state, real pickling over pipes) whose schedule the
# simulator still owns: the Scheduler decides which free worker gets the next task and which running
# worker's result is observed next.  Each worker executes its tasks sequentially, so the execution is a
# pure function of the decisions.  ("Real processes parked and released one at a time.")

import os as _os
import struct as _struct


def _send(fd, obj):
    data = pickle.dumps(obj)
    _os.write(fd, _struct.pack('<Q', len(data)))
    off = 0
    while off < len(data):
        off += _os.write(fd, data[off:off + 65536])


def _recv(fd):
    hdr = b''
    while len(hdr) < 8:
        b = _os.read(fd, 8 - len(hdr))
        if not b:
            return None
        hdr += b
    n = _struct.unpack('<Q', hdr)[0]
    chunks = []
    got = 0
    while got < n:
        b = _os.read(fd, min(65536, n - got))
        if not b:
            return None
        chunks.append(b)
        got += len(b)
    return pickle.loads(b''.join(chunks))


class _ForkWorker:
    def __init__(self, wid, hook, on_start=None, siblings=()):
        self.wid = wid
        p2c_r, p2c_w = _os.pipe()
        c2p_r, c2p_w = _os.pipe()
        self.pid = _os.fork()
        if self.pid == 0:
            _os.close(p2c_w)
            _os.close(c2p_r)
            for sib in siblings:       # do not keep the parent's ends of the other workers' pipes open
                for fd in (sib.w, sib.r):
                    try:
                        _os.close(fd)
                    except OSError:
                        pass
            try:
                if on_start:
                    on_start(wid)      # e.g. give this worker its own stream of temp-file names (real workers draw independent uuid4s)
                while True:
                    msg = _recv(p2c_r)
                    if msg is None:
                        break
                    idx, func, arg, fault = msg
                    try:
                        if fault == 'exception':
                            raise OSError(5, f'injected worker I/O failure in task {idx}')
                        res = hook(func, arg, 0, idx, worker_side=True) if hook else (func(arg), None)
                        _send(c2p_w, (idx, 'ok', res))
                    except Exception as e:
                        try:
                            pickle.dumps(e)
                            _send(c2p_w, (idx, 'exc', (e, None)))
                        except Exception:
                            _send(c2p_w, (idx, 'exc', (RuntimeError(repr(e)), None)))
            finally:
                _os._exit(0)
        _os.close(p2c_r)
        _os.close(c2p_w)
        self.w, self.r = p2c_w, c2p_r
        self.busy = None
        self.dead = False

    def kill(self):
        if not self.dead:
            self.dead = True
            try:
                _os.kill(self.pid, 9)
            except OSError:
                pass
            try:
                _os.waitpid(self.pid, 0)
            except OSError:
                pass
            for fd in (self.w, self.r):
                try:
                    _os.close(fd)
                except OSError:
                    pass

    def stop(self):
        if not self.dead:
            self.dead = True
            try:
                _os.close(self.w)
            except OSError:
                pass
            try:
                _os.waitpid(self.pid, 0)
            except OSError:
                pass
            try:
                _os.close(self.r)
            except OSError:
                pass


class _ForkIter:
    def __init__(self, pool, func, tasks, ordered):
        self.pool, self.func, self.tasks, self.ordered = pool, func, tasks, ordered
        self.n = len(tasks)
        self.next_start = 0
        self.ready = []
        self.delivered = 0
        self.next_ordered = 0
        self.lost = set()

    def __iter__(self):
        return self

    def _enabled(self):
        ev = []
        free = [w for w in self.pool.workers if w.busy is None and not w.dead]
        if self.next_start < self.n:
            for w in free:
                ev.append(('start', w))
        for w in self.pool.workers:
            if w.busy is not None and not w.dead:
                ev.append(('complete', w))
        return ev

    def _step(self):
        ev = self._enabled()
        if not ev:
            return False
        sch = self.pool.sched
        kind, w = ev[sch.choose(len(ev))]
        pid = self.pool.pool_id
        if kind == 'start':
            i = self.next_start
            self.next_start += 1
            fault = self.pool.faults.get((pid, i)) or self.pool.faults.get(('*', i))
            if fault == 'lost-before':
                w.kill()
                self.lost.add(i)
                self.pool.fired('worker_lost')
                sch.log.add('pool', pid, 'worker-lost-before', i, w.wid)
                return True
            try:
                _send(w.w, (i, self.func, self.tasks[i], fault if fault == 'exception' else None))
            except Exception as e:       # unpicklable argument: fails in the feeder as across a real process boundary
                self.ready.append((i, 'exc', e))
                sch.log.add('pool', pid, 'unpicklable-arg', i)
                return True
            if fault == 'exception':
                self.pool.fired('worker_exception')
            w.busy = (i, fault)
            sch.log.add('pool', pid, 'start', i, w.wid)
        else:
            i, fault = w.busy
            w.busy = None
            msg = _recv(w.r)
            if msg is None:              # the worker process died while running the task (e.g. killed at a crash point)
                w.dead = True
                self.lost.add(i)
                sch.log.add('pool', pid, 'worker-died', i, w.wid)
                return True
            idx, kind2, (res, info) = msg
            if info is not None and self.pool.task_hook:
                self.pool.task_hook(None, info, pid, idx, parent_side=True)
            if fault == 'lost-after':
                w.kill()
                self.lost.add(i)
                self.pool.fired('worker_lost')
                sch.log.add('pool', pid, 'worker-lost-after', i, w.wid)
                return True
            self.ready.append((idx, kind2, res))
            sch.log.add('pool', pid, 'complete', idx, kind2, w.wid)
        return True

    def __next__(self):
        sch = self.pool.sched
        _interrupt_point(self)
        while True:
            if self.delivered + len(self.lost) >= self.n and not self.ready:
                if self.lost:
                    sch.log.add('pool', self.pool.pool_id, 'HUNG', sorted(self.lost))
                    raise SimHang(f'pool {self.pool.pool_id}: results of tasks {sorted(self.lost)} never arrive')
                raise StopIteration
            deliverable = None
            if self.ordered:
                for k, r in enumerate(self.ready):
                    if r[0] == self.next_ordered:
                        deliverable = k
                        break
                if deliverable is None and self.next_ordered in self.lost:
                    raise SimHang(f'pool {self.pool.pool_id}: ordered result {self.next_ordered} never arrives')
            elif self.ready:
                deliverable = 0
            if deliverable is not None and self._enabled() and sch.choose(2, 'pile') == 1:
                self._step()
                continue
            if deliverable is not None:
                i, kind, payload = self.ready.pop(deliverable)
                self.delivered += 1
                self.next_ordered += 1
                sch.log.add('pool', self.pool.pool_id, 'deliver', i, kind)
                self.pool.order.append(i)
                if kind == 'exc':
                    raise payload
                return payload
            if not self._step():
                if self.lost:
                    sch.log.add('pool', self.pool.pool_id, 'HUNG', sorted(self.lost))
                    raise SimHang(f'pool {self.pool.pool_id}: results of tasks {sorted(self.lost)} never arrive')
                raise StopIteration


class ForkPool:
    def __init__(self, factory, processes):
        self.factory = factory
        self.sched = factory.sched
        self.faults = factory.faults
        self.task_hook = factory.task_hook
        self.pool_id = len(factory.pools)
        self.processes = factory.width or processes or 4
        self.order = []
        self.sched.log.add('pool', self.pool_id, 'create-forked', self.processes)
        self.workers = []
        for i in range(self.processes):
            self.workers.append(_ForkWorker(i, factory.task_hook, getattr(factory, 'on_worker_start', None), siblings=list(self.workers)))

    def fired(self, k):
        self.factory.fired(k)

    def __enter__(self):
        return self

    def __exit__(self, *a):
        self.terminate()
        return False

    def imap_unordered(self, func, iterable, chunksize=1):
        return _ForkIter(self, func, list(iterable), ordered=False)

    def imap(self, func, iterable, chunksize=1):
        return _ForkIter(self, func, list(iterable), ordered=True)

    def map(self, func, iterable, chunksize=None):
        return list(self.imap(func, iterable))

    def close(self):
        for w in self.workers:
            w.stop()

    def join(self):
        pass

    def terminate(self):
        for w in self.workers:
            w.kill()


class ForkPoolFactory(SimPoolFactory):
    """same seam as SimPoolFactory but with real forked worker processes"""

    def Pool(self, processes=None, *a, **k):
        p = ForkPool(self, processes)
        self.pools.append(p)
        return p

    __call__ = Pool
