"""Sequencing-library model with ground truth.

A *fragment* is an explicit JSON-able dict (so that replay files are explicit):

  n      unique integer id (becomes the cluster coordinate / read name)
  cell   cell index
  ctg    contig index
  site   cut-site coordinate (NLA: position of the C of CATG; CHIC: base next to the ligated overhang)
  rev    R1 maps to the reverse strand
  umi    UMI string
  L      fragment length (site .. far end)
  rl     read length
  kind   nla | chic | plain
  defect None | nomotif | r1unmapped | r2unmapped | orphan_r1 | orphan_r2 | unplaced | qcfail | single | secondary | supplementary
  clip   soft-clipped bases at the start of R1
  dup    pre-set duplicate bit / stale tags (C06 histories)
  mol    truth molecule id = index of (cell, ctg, site, rev, umi) class   (never written to the BAM)
"""
import hashlib

BASES = 'ACGT'


def _seq(n, salt, ln):
    """deterministic pseudo-random bases without touching any PRNG stream"""
    out = []
    i = 0
    while len(out) < ln:
        h = hashlib.md5(f'{n}/{salt}/{i}'.encode()).digest()
        out.extend(BASES[b & 3] for b in h)
        i += 1
    s = ''.join(out[:ln])
    return s.replace('CATG', 'CATC')


def umi_pool(w, k, length=3):
    """k UMIs, some at Hamming distance 1/2 of each other"""
    pool = []
    while len(pool) < k:
        if pool and w.random() < 0.5:
            base = list(w.choice(pool))
            for _ in range(w.choice([1, 1, 2])):
                base[w.randrange(length)] = w.choice(BASES)
            u = ''.join(base)
        else:
            u = ''.join(w.choice(BASES) for _ in range(length))
        if u not in pool:
            pool.append(u)
    return pool


def arrival_key(frag):
    """(contig, position of the later mate start) = when a coordinate-sorted BAM delivers the pair"""
    r1s, r1e, r2s, r2e = mate_coords(frag)
    starts = [x for x in (r1s, r2s) if x is not None]
    return (frag['ctg'], max(starts))


def sort_fragments(frags):
    """order in which a coordinate-sorted BAM hands the pairs to the molecule iterator (stable)"""
    return sorted(frags, key=arrival_key)


def build_pair(header, frag, sample_prefix='LIB', tagged=True, name=None):
    """(R1, R2) pysam.AlignedSegment for a *valid placed* fragment (eject / molecule-api engines)"""
    import pysam
    site, L, rl, clip = frag['site'], frag['L'], frag['rl'], frag.get('clip', 0)
    kind = frag.get('kind', 'nla')
    r1s, r1e, r2s, r2e = mate_coords(frag)
    qname = name or f"r{frag['n']}"
    single = frag.get('defect') == 'single'

    def seg(is_r1, start, end, reverse, seq_core):
        s = pysam.AlignedSegment(header)
        s.query_name = qname
        s.reference_id = frag['ctg']
        s.reference_start = start
        s.mapping_quality = frag.get('mq', 60)
        flag = 0
        if not single:
            flag |= 0x1 | 0x2
            flag |= 0x40 if is_r1 else 0x80
        if reverse:
            flag |= 0x10
        if not single and not reverse:
            flag |= 0x20
        s.flag = flag
        s.query_sequence = seq_core
        s.query_qualities = pysam.qualitystring_to_array('I' * len(seq_core))
        return s

    ln1 = r1e - r1s
    if kind == 'nla':
        motif = 'CATG' if frag.get('defect') != 'nomotif' else 'CTTG'
        body = _seq(frag['n'], 1, ln1 + clip - 4)
        if not frag['rev']:
            seq1 = motif + body            # clipped bases are the first `clip` of the read
        else:
            seq1 = body + motif            # stored reverse-complemented: ends with CATG
    else:
        seq1 = _seq(frag['n'], 1, ln1 + clip)
    R1 = seg(True, r1s, r1e, frag['rev'], seq1)
    if clip:
        R1.cigartuples = ([(4, clip), (0, ln1)] if not frag['rev'] else [(0, ln1), (4, clip)])
    else:
        R1.cigartuples = [(0, ln1)]
    R2 = None
    if not single:
        ln2 = r2e - r2s
        R2 = seg(False, r2s, r2e, not frag['rev'], _seq(frag['n'], 2, ln2))
        R2.cigartuples = [(0, ln2)]
        R1.next_reference_id = frag['ctg']
        R1.next_reference_start = r2s
        R2.next_reference_id = frag['ctg']
        R2.next_reference_start = r1s
        tl = (max(r1e, r2e) - min(r1s, r2s))
        R1.template_length = tl if not frag['rev'] else -tl
        R2.template_length = -R1.template_length
    if tagged:
        for r in (R1, R2):
            if r is None:
                continue
            r.set_tag('SM', f"{sample_prefix}_{frag['cell']}")
            r.set_tag('RX', frag['umi'])
            r.set_tag('MX', 'NLAIII384C8U3' if kind == 'nla' else ('scCHIC384C8U3' if kind == 'chic' else 'CS2C8U6'))
            if kind == 'chic':
                r.set_tag('lh', 'TA')
    return R1, R2


def truth_classes(frags, keyf=None):
    """dict truth key -> set of fragment ids"""
    out = {}
    for f in frags:
        k = (f['cell'], f['ctg'], f['site'], bool(f['rev']), f['umi']) if keyf is None else keyf(f)
        out.setdefault(k, set()).add(f['n'])
    return out


# --------------------------------------------------------------------------------------
# coordinates per protocol flavour

_OFF = {'nla': (0, 4), 'chic': (2, -1), 'plain': (0, 0)}


def mate_coords(frag):
    """reference (start, end) of the aligned part of R1 and R2; None for an absent / unmapped mate"""
    site, L, rl, clip = frag['site'], frag['L'], frag['rl'], frag.get('clip', 0)
    rl1 = rl2 = min(rl, L)
    fo, ro = _OFF[frag.get('kind', 'nla')]
    if not frag['rev']:
        a = site + fo
        r1s, r1e = a + clip, a + rl1
        r2e = a + L
        r2s = r2e - rl2
    else:
        a = site + ro
        r1e, r1s = a - clip, a - rl1
        r2s = a - L
        r2e = r2s + rl2
    d = frag.get('defect')
    if d in ('single', 'orphan_r1', 'r2unmapped', 'placed_unmapped'):
        r2s = r2e = None
    if d in ('orphan_r2', 'r1unmapped'):
        r1s = r1e = None
    if d == 'unplaced':
        r1s = r1e = r2s = r2e = None
    return r1s, r1e, r2s, r2e


def full_coords(frag):
    """coordinates both mates would have if mapped (used to place unmapped mates and to bound the fragment)"""
    f = dict(frag)
    f['defect'] = None
    return mate_coords(f)


MX = {'nla': 'NLAIII384C8U3', 'chic': 'scCHIC384C8U3', 'plain': 'CS2C8U6'}
_BCS = ['ACACACTA', 'ACAGTGAT', 'CGATGTAA', 'TTAGGCAT', 'TGACCAAT', 'GCCAATGG', 'CAGATCTA', 'ACTTGATG']


def read_name(frag, encoded, lib='LIB'):
    n = frag['n']
    fc = f"HFLOW{frag.get('fc', 1)}"
    lane = frag.get('lane', 1)
    if not encoded:
        return f'NS500414:628:{fc}:{lane}:11101:{n}:{n + 1}'
    kind = frag.get('kind', 'nla')
    bc = _BCS[frag['cell'] % len(_BCS)]
    umi = frag['umi']
    s = (f"Is:NS500414;RN:628;Fc:{fc};La:{lane};Ti:11101;CX:{n};CY:{n + 1};Fi:N;CN:0;aa:CGATGT;aA:CGATGT;aI:2;LY:{lib};"
         f"RX:{umi};RQ:{'G' * len(umi)};bi:{frag['cell'] + 1};bc:{bc};BC:{bc};QT:{'G' * len(bc)};MX:{MX[kind]}")
    if kind == 'chic':
        s += ';lh:TA;lq:GG'
    return s


def identity_of(query_name):
    """fragment id from an input (encoded or plain) or output (decoded) read name"""
    if query_name.startswith('Is:'):
        for kv in query_name.split(';'):
            if kv.startswith('CX:'):
                return int(kv[3:])
    return int(query_name.split(':')[5])


def fragment_records(header, frag, encoded=True, lib='LIB'):
    """all alignment records of one fragment as they appear in the *input* BAM"""
    import pysam
    kind = frag.get('kind', 'nla')
    d = frag.get('defect')
    clip = frag.get('clip', 0)
    fr1s, fr1e, fr2s, fr2e = full_coords(frag)
    qname = read_name(frag, encoded, lib)
    paired = d not in ('single', 'placed_unmapped')
    r1_present = d not in ('orphan_r2',)
    r2_present = d not in ('single', 'orphan_r1', 'placed_unmapped')
    r1_mapped = d not in ('r1unmapped', 'unplaced', 'placed_unmapped')
    r2_mapped = d not in ('r2unmapped', 'unplaced')
    ctg = frag['ctg']
    recs = []

    def tagit(s):
        if not encoded:
            s.set_tag('SM', f"{lib}_{frag['cell'] + 1}")
            s.set_tag('RX', frag['umi'])
            s.set_tag('MX', MX[kind])
            s.set_tag('Fc', f"HFLOW{frag.get('fc', 1)}")
            s.set_tag('La', str(frag.get('lane', 1)))
            s.set_tag('LY', lib)
            s.set_tag('BC', _BCS[frag['cell'] % len(_BCS)])
            s.set_tag('bi', frag['cell'] + 1)
            if kind == 'chic':
                s.set_tag('lh', 'TA')
        if frag.get('foreign_rg'):      # read group assigned by the aligner / an earlier run with another read-group scheme
            s.set_tag('RG', frag['foreign_rg'])
        if frag.get('dup'):     # stale state from "an earlier tool"
            s.set_tag('RC', frag['dup'].get('RC', 3))
            s.set_tag('af', 9)
            s.set_tag('TF', 9)

    def mk(is_r1, start, end, reverse, mapped, mate_mapped, mate_start, mate_reverse, seq, cigar):
        s = pysam.AlignedSegment(header)
        s.query_name = qname
        flag = 0
        if paired:
            flag |= 0x1 | (0x40 if is_r1 else 0x80)
            if mapped and mate_mapped and r1_present and r2_present:
                flag |= 0x2
            if not mate_mapped:
                flag |= 0x8
            elif mate_reverse:
                flag |= 0x20
        if not mapped:
            flag |= 0x4
        elif reverse:
            flag |= 0x10
        if d == 'qcfail':
            flag |= 0x200
        if frag.get('dup') and frag['dup'].get('bit'):
            flag |= 0x400
        s.flag = flag
        s.query_sequence = seq
        s.query_qualities = pysam.qualitystring_to_array('I' * len(seq))
        if d == 'unplaced':
            s.reference_id = -1
            s.reference_start = -1
            s.next_reference_id = -1
            s.next_reference_start = -1
            s.mapping_quality = 0
        else:
            s.reference_id = ctg
            s.reference_start = start
            s.mapping_quality = frag.get('mq', 60) if mapped else 0
            if mapped:
                s.cigartuples = cigar
            if paired:
                s.next_reference_id = ctg
                s.next_reference_start = mate_start
                if mapped and mate_mapped:
                    tl = max(fr1e, fr2e) - min(fr1s, fr2s)
                    s.template_length = tl if start == min(fr1s, fr2s) else -tl
        tagit(s)
        return s

    ln1 = fr1e - fr1s
    if kind == 'nla':
        motif = 'CATG' if d != 'nomotif' else 'CTTG'
        body = _seq(frag['n'], 1, max(0, ln1 + clip - 4))
        seq1 = (motif + body) if not frag['rev'] else (body + motif)
        seq1 = seq1[:ln1 + clip] if not frag['rev'] else seq1[-(ln1 + clip):]
    else:
        seq1 = _seq(frag['n'], 1, ln1 + clip)
    cig1 = [(0, ln1)]
    if clip:
        cig1 = [(4, clip), (0, ln1)] if not frag['rev'] else [(0, ln1), (4, clip)]
    ln2 = fr2e - fr2s
    seq2 = _seq(frag['n'], 2, ln2)
    # an unmapped mate is placed at its mate's position
    r1_start = fr1s if (r1_mapped or d == 'placed_unmapped') else fr2s
    r2_start = fr2s if r2_mapped else fr1s
    if r1_present:
        recs.append(mk(True, r1_start, fr1e, frag['rev'], r1_mapped, r2_mapped if r2_present or d == 'orphan_r1' else True,
                       r2_start, not frag['rev'], seq1, cig1))
    cig2 = [(0, ln2)]
    shape = frag.get('r2cig')      # richer alignments of read 2 on the same reference span (the span is what molecule assignment looks at)
    if shape and r2_mapped and ln2 >= 12:
        a = 3 + frag['n'] % (ln2 - 8)
        if shape == 'ins':
            cig2 = [(0, a), (1, 2), (0, ln2 - a)]
            seq2 = _seq(frag['n'], 2, ln2 + 2)
        elif shape == 'del':
            cig2 = [(0, a), (2, 3), (0, ln2 - a - 3)]
            seq2 = _seq(frag['n'], 2, ln2 - 3)
        elif shape == 'splice':
            cig2 = [(0, a), (3, 4), (0, ln2 - a - 4)]
            seq2 = _seq(frag['n'], 2, ln2 - 4)
        elif shape == 'hard':
            cig2 = [(5, 5), (0, ln2)]
    if r2_present:
        recs.append(mk(False, r2_start, fr2e, not frag['rev'], r2_mapped, r1_mapped, r1_start, frag['rev'], seq2, cig2))
    dc = frag.get('discordant')    # read 2 aligned to ANOTHER contig (translocation, chimeric template): both mates present, never in one fetch
    if dc and d is None and len(recs) == 2:
        R1, R2 = recs
        R2.reference_id = dc['ctg']
        R2.reference_start = dc['pos']
        R1.next_reference_id = dc['ctg']
        R1.next_reference_start = dc['pos']
        for s in (R1, R2):
            s.flag &= ~0x2
            s.template_length = 0
    extra = frag.get('extra')      # secondary / supplementary copy of R1 (dropped by the mate-pairing library; outside the claim)
    if extra and r1_present and r1_mapped:
        s = mk(True, max(0, fr1s + extra.get('shift', 7)), None, frag['rev'], True, r2_mapped, r2_start, not frag['rev'], seq1, cig1)
        s.flag |= 0x100 if extra['kind'] == 'secondary' else 0x800
        recs.append(s)
    return recs


def write_input_bam(path, contigs, frags, encoded=True, lib='LIB', extra_header=None):
    """coordinate-sorted, indexed input BAM; returns number of records"""
    import pysam
    hd = {'HD': {'VN': '1.6', 'SO': 'coordinate'}, 'SQ': [{'SN': c, 'LN': l} for c, l in contigs]}
    if extra_header:
        hd.update(extra_header)
    header = pysam.AlignmentHeader.from_dict(hd)
    recs = []
    for f in frags:
        for r in fragment_records(header, f, encoded=f.get('encoded', encoded), lib=lib):
            recs.append(r)
    big = len(contigs) + 1
    recs.sort(key=lambda r: (r.reference_id if r.reference_id >= 0 else big, r.reference_start))
    with pysam.AlignmentFile(path, 'wb', header=header) as out:
        for r in recs:
            out.write(r)
    pysam.index(path)
    return len(recs)


def invalid_for(frag, method):
    """is this fragment *invalid* (rejected, removed by --no_rejects) for the method - generator's label"""
    d = frag.get('defect')
    if d in ('r1unmapped', 'orphan_r2', 'unplaced', 'qcfail', 'placed_unmapped'):
        return True
    if method == 'nla' and d == 'nomotif':
        return True
    return False
