"""Sequencing-library model with ground truth.

A *fragment* is an explicit JSON-able dict (so that replay files are explicit):

  n      unique integer id (becomes the cluster coordinate / read name)
  cell   cell index
  ctg    contig index
  site   cut-site coordinate (NLA: position of the C of CATG; CHIC: base next to the ligated overhang)
  rev    R1 maps to the reverse strand
  umi    UMI string
  L      fragment length (site .. far end)
  rl     read length
  kind   nla | chic | plain
  defect None | nomotif | r1unmapped | r2unmapped | orphan_r1 | orphan_r2 | unplaced | qcfail | single | secondary | supplementary
  clip   soft-clipped bases at the start of R1
  dup    pre-set duplicate bit / stale tags (C06 histories)
  mol    truth molecule id = index of (cell, ctg, site, rev, umi) class   (never written to the BAM)
"""
import hashlib

BASES = 'ACGT'


def _seq(n, salt, ln):
    """deterministic pseudo-random bases without touching any PRNG stream"""
    out = []
    i = 0
    while len(out) < ln:
        h = hashlib.md5(f'{n}/{salt}/{i}'.encode()).digest()
        out.extend(BASES[b & 3] for b in h)
        i += 1
    s = ''.join(out[:ln])
    return s.replace('CATG', 'CATC')


def umi_pool(w, k, length=3):
    """k UMIs, some at Hamming distance 1/2 of each other"""
    pool = []
    while len(pool) < k:
        if pool and w.random() < 0.5:
            base = list(w.choice(pool))
            for _ in range(w.choice([1, 1, 2])):
                base[w.randrange(length)] = w.choice(BASES)
            u = ''.join(base)
        else:
            u = ''.join(w.choice(BASES) for _ in range(length))
        if u not in pool:
            pool.append(u)
    return pool


def arrival_key(frag):
    """(contig, position of the later mate start) = when a coordinate-sorted BAM delivers the pair"""
    r1s, r1e, r2s, r2e = mate_coords(frag)
    starts = [x for x in (r1s, r2s) if x is not None]
    return (frag['ctg'], max(starts))


def mate_coords(frag):
    """reference (start, end) of R1 and R2 (None if the mate is absent/unmapped)"""
    site, L, rl, clip = frag['site'], frag['L'], frag['rl'], frag.get('clip', 0)
    rl1 = min(rl, L)
    rl2 = min(rl, L)
    kind = frag.get('kind', 'nla')
    off = 4 if kind == 'nla' else (1 if kind == 'chic' else 0)
    if not frag['rev']:
        anchor = site if kind != 'chic' else site - 1 + 1  # see build_reads
        r1s = anchor + clip
        r1e = anchor + rl1
        r2e = anchor + L
        r2s = r2e - rl2
    else:
        anchor = site + off
        r1e = anchor - clip
        r1s = anchor - rl1
        r2s = anchor - L
        r2e = r2s + rl2
    d = frag.get('defect')
    if d in ('single', 'orphan_r1', 'r2unmapped'):
        r2s = r2e = None
    if d in ('orphan_r2', 'r1unmapped'):
        r1s = r1e = None
    return r1s, r1e, r2s, r2e


def sort_fragments(frags):
    """order in which a coordinate-sorted BAM hands the pairs to the molecule iterator (stable)"""
    return sorted(frags, key=arrival_key)


def build_pair(header, frag, sample_prefix='LIB', tagged=True, name=None):
    """(R1, R2) pysam.AlignedSegment for a *valid placed* fragment (eject / molecule-api engines)"""
    import pysam
    site, L, rl, clip = frag['site'], frag['L'], frag['rl'], frag.get('clip', 0)
    kind = frag.get('kind', 'nla')
    r1s, r1e, r2s, r2e = mate_coords(frag)
    qname = name or f"r{frag['n']}"
    single = frag.get('defect') == 'single'

    def seg(is_r1, start, end, reverse, seq_core):
        s = pysam.AlignedSegment(header)
        s.query_name = qname
        s.reference_id = frag['ctg']
        s.reference_start = start
        s.mapping_quality = frag.get('mq', 60)
        flag = 0
        if not single:
            flag |= 0x1 | 0x2
            flag |= 0x40 if is_r1 else 0x80
        if reverse:
            flag |= 0x10
        if not single and not reverse:
            flag |= 0x20
        s.flag = flag
        s.query_sequence = seq_core
        s.query_qualities = pysam.qualitystring_to_array('I' * len(seq_core))
        return s

    ln1 = r1e - r1s
    if kind == 'nla':
        motif = 'CATG' if frag.get('defect') != 'nomotif' else 'CTTG'
        body = _seq(frag['n'], 1, ln1 + clip - 4)
        if not frag['rev']:
            seq1 = motif + body            # clipped bases are the first `clip` of the read
        else:
            seq1 = body + motif            # stored reverse-complemented: ends with CATG
    else:
        seq1 = _seq(frag['n'], 1, ln1 + clip)
    R1 = seg(True, r1s, r1e, frag['rev'], seq1)
    if clip:
        R1.cigartuples = ([(4, clip), (0, ln1)] if not frag['rev'] else [(0, ln1), (4, clip)])
    else:
        R1.cigartuples = [(0, ln1)]
    R2 = None
    if not single:
        ln2 = r2e - r2s
        R2 = seg(False, r2s, r2e, not frag['rev'], _seq(frag['n'], 2, ln2))
        R2.cigartuples = [(0, ln2)]
        R1.next_reference_id = frag['ctg']
        R1.next_reference_start = r2s
        R2.next_reference_id = frag['ctg']
        R2.next_reference_start = r1s
        tl = (max(r1e, r2e) - min(r1s, r2s))
        R1.template_length = tl if not frag['rev'] else -tl
        R2.template_length = -R1.template_length
    if tagged:
        for r in (R1, R2):
            if r is None:
                continue
            r.set_tag('SM', f"{sample_prefix}_{frag['cell']}")
            r.set_tag('RX', frag['umi'])
            r.set_tag('MX', 'NLAIII384C8U3' if kind == 'nla' else ('scCHIC384C8U3' if kind == 'chic' else 'CS2C8U6'))
            if kind == 'chic':
                r.set_tag('lh', 'TA')
    return R1, R2


def truth_classes(frags, keyf=None):
    """dict truth key -> set of fragment ids"""
    out = {}
    for f in frags:
        k = (f['cell'], f['ctg'], f['site'], bool(f['rev']), f['umi']) if keyf is None else keyf(f)
        out.setdefault(k, set()).add(f['n'])
    return out
