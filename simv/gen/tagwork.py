"""Workloads for the tagger pipeline engines: genome (contig layout) + library with labelled defects."""
from ..rng import weighted
from . import library as lib

SMALL = 100000


def contig_length(w):
    return weighted(w, [(w.randint(200, 3000), 5), (w.randint(99000, 101000), 3), (w.randint(150000, 400000), 3)])


def genome(w, nmax=12):
    n = weighted(w, [(1, 2), (2, 3), (3, 3), (w.randint(4, 6), 3), (w.randint(7, max(7, nmax)), 1)])
    n = min(n, nmax)
    g = [[f'ctg{i}' if w.random() < 0.8 else f'chrUn_{i}', contig_length(w)] for i in range(n)]
    # reference names may hold any printable character but a leading '*' or '=' (SAM spec): alternate-allele contigs of the GRCh38 analysis set
    if w.random() < 0.2:
        for i in range(n):
            if w.random() < 0.5:
                g[i][0] = f'HLA-A*0{i}:01:0{i}'
    # two contigs of exactly the same length (homologous scaffolds, duplicated plasmids)
    if n >= 2 and w.random() < 0.25:
        i, j = w.sample(range(n), 2)
        g[j][1] = g[i][1]
    return g


def library(w, contigs, method, n_target=None, defects=True, cells=None, dense=False, umi_len=3):
    """fragments with truth; `method` in nla|chic|qflag"""
    kind = {'nla': 'nla', 'chic': 'chic', 'qflag': 'plain'}[method]
    ncell = cells or w.randint(1, 8)
    if n_target is None:
        n_target = weighted(w, [(w.randint(0, 3), 1), (w.randint(4, 25), 5), (w.randint(26, 90), 3)])
    frags = []
    mol = 0
    empty = {i for i in range(len(contigs)) if w.random() < 0.25} if len(contigs) > 1 else set()
    live = [i for i in range(len(contigs)) if i not in empty] or [0]
    rl = w.choice([20, 30, 40])
    while len(frags) < n_target:
        ci = w.choice(live)
        clen = contigs[ci][1]
        maxL = min(300, clen // 3)
        if maxL < rl + 2:
            maxL = rl + 2
        site = w.randint(maxL + 8, max(maxL + 9, clen - maxL - 8))
        if dense and frags and w.random() < 0.5:
            o = w.choice(frags)
            if o['ctg'] == ci:
                site = min(clen - maxL - 8, max(maxL + 8, o['site'] + w.choice([0, 0, 1, 2, -1, 5, 30])))
        nm = w.choice([1, 1, 2, 3, 6]) if not dense else w.choice([1, 2, 3])
        umis = lib.umi_pool(w, nm, umi_len)
        for m in range(nm):
            cell = w.randrange(ncell)
            rev = w.random() < 0.5
            copies = w.choice([1, 1, 1, 2, 3, 5])
            for c in range(copies):
                L = w.randint(rl, maxL)
                f = {'n': 1000 + len(frags), 'cell': cell, 'ctg': ci, 'site': site, 'rev': rev, 'umi': umis[m], 'L': L, 'rl': rl,
                     'kind': kind, 'defect': None, 'clip': 0, 'mol': mol, 'fc': w.choice([1, 1, 2]), 'lane': w.choice([1, 1, 2])}
                if defects:
                    x = w.random()
                    if x < 0.03:
                        f['defect'] = 'nomotif' if kind == 'nla' else None
                    elif x < 0.06:
                        f['defect'] = 'r1unmapped'
                    elif x < 0.09:
                        f['defect'] = 'r2unmapped'
                    elif x < 0.11:
                        f['defect'] = 'orphan_r1'
                    elif x < 0.13:
                        f['defect'] = 'orphan_r2'
                    elif x < 0.17:
                        f['defect'] = 'unplaced'
                    elif x < 0.19:
                        f['defect'] = 'qcfail'
                    elif x < 0.24:
                        f['defect'] = 'single'
                    elif x < 0.27:
                        f['extra'] = {'kind': w.choice(['secondary', 'supplementary']), 'shift': w.randint(1, 20)}
                    if w.random() < 0.1 and f['defect'] is None and kind != 'plain':
                        f['clip'] = w.randint(1, 6)
                    if w.random() < 0.1:
                        f['r2cig'] = w.choice(['ins', 'del', 'splice', 'hard'])
                frags.append(f)
            mol += 1
    frags = frags[:max(n_target, 0)] if n_target else []
    # edge coordinates: a fragment whose leftmost base is base 0 of its contig, and one that ends on the last base
    fo, ro = lib._OFF[kind]
    for f in frags:
        x = w.random()
        if x < 0.04 and not f.get('clip'):
            f['site'] = (0 - fo) if not f['rev'] else (f['L'] - ro)
            if f['site'] < 0:
                f['site'] = 0
                f['rev'] = True
                f['site'] = f['L'] - ro
        elif x < 0.07 and not f.get('clip'):
            clen = contigs[f['ctg']][1]
            f['site'] = (clen - f['L'] - fo) if not f['rev'] else (clen - ro)
    for f in frags:        # keep everything inside its contig
        clen = contigs[f['ctg']][1]
        xs = [v for v in lib.full_coords(f) if v is not None]
        if min(xs) < 0 or max(xs) > clen:
            f['site'] = max(f['L'] + 8, min(clen - f['L'] - 8, f['site']))
    return frags


def many_small_contigs(w, method, n=None, length=(90000, 99900)):
    """scaffold-rich assembly: 55..80 contigs just under the small-contig threshold, one or two fragments each
    (their total length exceeds the 5 Mb job size used for chic / nla)"""
    n = n or w.randint(55, 80)
    genome = [[f'scaf{i}', w.randint(*length)] for i in range(n)]
    kind = {'nla': 'nla', 'chic': 'chic', 'qflag': 'plain'}[method]
    frags = []
    for ci in range(n):
        for _ in range(w.choice([1, 1, 2])):
            L = w.randint(40, 200)
            frags.append({'n': 1000 + len(frags), 'cell': w.randrange(3), 'ctg': ci, 'site': w.randint(500, 80000), 'rev': w.random() < 0.5,
                          'umi': ''.join(w.choice('ACGT') for _ in range(3)), 'L': L, 'rl': 30, 'kind': kind, 'defect': None, 'clip': 0, 'mol': len(frags),
                          'fc': 1, 'lane': 1})
    return genome, frags
