"""One integer decides everything.

VERIF_SEED -> per-run seed -> four independent labelled streams.  A stream is
only consumed by its own concern, so shrinking a workload never reshuffles a
schedule, and logging never draws.
"""
import hashlib
import random

STREAMS = ('workload', 'schedule', 'faults', 'names')


def run_seed(verif_seed, engine, index):
    h = hashlib.sha256(f"{verif_seed}/{engine}/{index}".encode()).hexdigest()
    return h[:16]


def stream(seed_hex, label):
    h = hashlib.sha256(f"{seed_hex}/{label}".encode()).digest()
    return random.Random(int.from_bytes(h[:8], 'big'))


class Streams:
    def __init__(self, seed_hex):
        self.seed = seed_hex
        for s in STREAMS:
            setattr(self, s, stream(seed_hex, s))

    def sub(self, label):
        """an extra independent stream (e.g. per lifetime)"""
        return stream(self.seed, label)


def weighted(rng, pairs):
    """pairs: [(value, weight)...]"""
    tot = sum(w for _, w in pairs)
    x = rng.random() * tot
    for v, w in pairs:
        x -= w
        if x < 0:
            return v
    return pairs[-1][0]
