"""Shared helpers of the tagger-pipeline engines (C05, C06, C08, C20)."""
import collections
import os
import shutil

from . import pipeline as pl
from .gen import library as lib

TAGGER_REAL = ['bamtagmultiome.run_multiome_tagging_cmd (argument parsing .. status file)', 'verify_and_fix_bam', 'MoleculeIterator + pysamiterators.MatePairIterator',
               'fragment / molecule classes (NlaIII, CHIC)', 'sorted_bam_file', 'add_readgroups_to_header / replace_bam_header (pysam branch)', 'sort_and_index',
               'tag_multiome_multi_processing (job construction, generate_tasks)', 'tagging.run_tagging_tasks / run_tagging_task', 'merge_bams (pysam.merge branch)',
               'htslib BAM/BAI I/O on real files in a scratch directory']
TAGGER_STUB = ['SimPool bound to bamtagmultiome.Pool: the Scheduler (seeded / explicit decisions) owns start, completion and delivery order, width, worker loss and worker exceptions; workers are either in-process (atomic real task bodies, pickled args/results) or REAL forked processes fed over pipes (private module state, real pickling; the scheduler decides which free worker gets a task and whose result is observed next)',
               'SimClock.sleep for bamtagmultiome.sleep (5 simulated seconds, 0 real)', 'uuid4 from a separate seeded stream (bamtagmultiome.uuid, tagging.uuid4, bamFunctions.uuid)',
               'each lifetime runs in a fresh fork of the warm shard process']


def setup_imports():
    import singlecellmultiomics.universalBamTagger.bamtagmultiome  # noqa
    import singlecellmultiomics.universalBamTagger.tagging  # noqa
    import singlecellmultiomics.bamProcessing.bamFunctions  # noqa
    import pysam  # noqa


def write_input(d, case, name='in.bam'):
    p = case['params']
    path = os.path.join(d, name)
    extra_header = None
    hr = p.get('header_rgs')
    if hr:
        # the input already declares read groups (a tagged file merged with untagged reads, a file re-headered by another tool ...)
        libn = p.get('lib', 'LIB')
        ids = sorted({f"HFLOW{f.get('fc', 1)}.{f.get('lane', 1)}.{libn}_{f['cell'] + 1}" for f in case['workload']})
        if hr == 'subset':
            ids = ids[:max(1, len(ids) // 2)]
        elif hr == 'other':
            ids = ['OTHERFLOW.9.SOMEONE_1']
        extra_header = {'RG': [{'ID': i, 'SM': i.split('.', 2)[2], 'LB': libn, 'PL': 'ILLUMINA', 'PU': i} for i in ids]}
    _real_write = lib.write_input_bam

    def _write(path_, genome_, frags_, **kw):
        return _real_write(path_, genome_, frags_, extra_header=extra_header, **kw)
    st = p.get('index_state')
    if st and st[0] in ('stale', 'stale-empty'):
        # an earlier, different version of the file was indexed (half of the records, or an empty placeholder of a failed first attempt);
        # the file was then re-written in place and the old index left behind
        first = case['workload'][:max(1, len(case['workload']) // 2)] if st[0] == 'stale' else []
        _write(path, case['genome'], first, encoded=p.get('encoded', True), lib=p.get('lib', 'LIB'))
        os.rename(path + '.bai', path + '.bai.old')
    _write(path, case['genome'], case['workload'], encoded=p.get('encoded', True), lib=p.get('lib', 'LIB'))
    if st and st[0] in ('stale', 'stale-empty'):
        os.replace(path + '.bai.old', path + '.bai')
        t = os.path.getmtime(path)
        os.utime(path + '.bai', (t - st[1], t - st[1]))     # simulated clock: the index is st[1] seconds older than the BAM
    elif st and st[0] == 'missing':
        os.remove(path + '.bai')
    elif st and st[0] == 'no-unplaced-count':
        # a .bai written without the optional trailing count of reads without coordinates (other indexers omit it): htslib accepts it,
        # fetch('*') still delivers those reads, idxstats reports 0 of them.  Only for files that hold at least one PLACED read: htslib finds
        # the start of the unplaced reads from the last placed one, and without any it relies on that very count (then no reader at all
        # can fetch them - nothing the tagger could be held to)
        import pysam
        placed = sum(int(l.split('\t')[2]) + int(l.split('\t')[3]) for l in pysam.idxstats(path).splitlines() if l and not l.startswith('*'))
        if placed > 0:
            with open(path + '.bai', 'r+b') as f:
                f.truncate(os.path.getsize(path + '.bai') - 8)
            t = os.path.getmtime(path)
            os.utime(path + '.bai', (t + 1, t + 1))
    return path


def argv_for(case, in_bam, out_bam, d, mode, extra=()):
    p = case['params']
    a = [in_bam, '-o', out_bam, '-method', p['method'], '-temp_folder', d]
    if mode.get('mp'):
        a += ['--multiprocess', '-tagthreads', str(mode.get('width', 2))]
    if mode.get('no_rejects'):
        a += ['--no_rejects']
    if p.get('max_associated_fragments'):
        a += ['-max_associated_fragments', str(p['max_associated_fragments'])]
    if p.get('umi_hamming_distance') is not None:
        a += ['-umi_hamming_distance', str(p['umi_hamming_distance'])]
    if p.get('contig'):
        a += ['-contig', p['contig']]
    if p.get('assignment_radius') is not None:
        a += ['-assignment_radius', str(p['assignment_radius'])]
    return a + list(extra)


def sim_for(case, mode):
    sim = {'seed': mode.get('seed') or case.get('run_seed', '0'), 'schedule': mode.get('schedule'), 'width': mode.get('width')}
    if mode.get('api'):
        sim['api'] = mode['api']
        sim['tiling'] = mode['tiling']
    for k in ('faults', 'worker_faults', 'crash', 'trace', 'real_pool', 'fsize', 'isolation'):
        if mode.get(k) is not None:
            sim[k] = mode[k]
    return sim


def run_mode(d, case, mode, tag, in_bam=None, clean=True, timeout=120):
    """one lifetime; returns dict(res, status, problems, records, header_rgs)"""
    in_bam = in_bam or os.path.join(d, 'in.bam')
    sub = os.path.join(d, tag)
    os.makedirs(sub, exist_ok=True)
    out_bam = os.path.join(sub, 'out.bam')
    # the child runs with cwd = sub: relative paths keep random scratch names out of the output header (its size must be reproducible)
    res = pl.run_lifetime(sub, argv_for(case, os.path.relpath(in_bam, sub), 'out.bam', '.', mode), sim_for(case, mode), timeout=timeout)
    o = {'res': res, 'status': pl.read_status(out_bam), 'out': out_bam, 'dir': sub}
    ok = res.get('exception') is None and not res.get('hung') and res.get('exit') == 0 and o['status'] == pl.SUCCESS
    o['ok'] = ok
    if ok:
        o['problems'] = pl.check_sorted_indexed(out_bam)
        try:
            o['records'] = pl.canonical_records(out_bam, with_tags=True)
            import pysam
            with pysam.AlignmentFile(out_bam) as a:
                o['header_rgs'] = [rg.get('ID') for rg in a.header.to_dict().get('RG', [])]
        except Exception as e:
            o['problems'].append('unreadable:' + type(e).__name__)
            o['records'] = None
    return o


def conservation_key(r, both_mates):
    return (r['id'], r['mate'] if r['id'] in both_mates else None, r['seq'], r['qual'], r['ref'], r['pos'], r['cigar'])


def multiset_diff(a, b):
    ca, cb = collections.Counter(a), collections.Counter(b)
    return ca - cb, cb - ca


def contigs_with_reads(inp):
    c = collections.Counter(r['ref'] for r in inp if r['ref'] is not None)
    return c


def failure_signature(o):
    res = o['res']
    if res.get('hung'):
        return 'hung'
    if res.get('exception'):
        return res['exception'].split(':')[0]
    if res.get('no_result'):
        return f"died-exit{res.get('exit')}"
    return f"status={o['status']!r}"[:60]


def conservation_diff(P, workload, method, no_rejects, got_records):
    """(missing, extra) multisets of primary records: output vs what the statement requires for this run"""
    both = {i for i, c in collections.Counter(r['id'] for r in P).items() if c == 2}
    got = collections.Counter(conservation_key(r, both) for r in got_records if not r['sec'])
    if not no_rejects:
        target = collections.Counter(conservation_key(r, both) for r in P)
    else:
        invalid_ids = {f['n'] for f in workload if lib.invalid_for(f, method)}
        half = {f['n'] for f in workload if f.get('defect') == 'r2unmapped' or f.get('discordant')}
        target = collections.Counter(conservation_key(r, both) for r in P if r['id'] not in invalid_ids)
        # the unmapped mate of a half-mapped pair is handed over as a fragment of its own: optional under --no_rejects
        for r in P:
            if r['id'] in half and r['mate'] == 2:
                k = conservation_key(r, both)
                if got.get(k, 0) < target.get(k, 0):
                    target[k] = got.get(k, 0)
        target = +target
    return multiset_diff(target, got)
