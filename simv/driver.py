"""Check driver: seeded batches of simulated runs on 16 shard processes, violation
triage (known findings), minimisation, replay verification and evidence.

Exit codes: 0 held / only known findings; 1 VIOLATION; 2 harness error.
"""
import concurrent.futures as cf
import copy
import faulthandler
import hashlib
import importlib
import json
import multiprocessing
import os
import re
import subprocess
import sys
import time
import traceback

from . import rng as _rng
from . import ddmin as _ddmin

VERIF = os.path.dirname(os.path.dirname(os.path.abspath(__file__)))
ENGINES = {
    'C01': 'demux', 'C05': 'tagconserve', 'C06': 'molecules', 'C07': 'eject',
    'C08': 'parallel', 'C12': 'bins', 'C16': 'features', 'C18': 'alleles',
    'C19': 'handles', 'C20': 'status',
}


class HarnessError(Exception):
    pass


def load_engine(prop):
    if prop not in ENGINES:
        raise HarnessError(f'no engine for {prop}')
    return importlib.import_module(f'simv.engines.{ENGINES[prop]}')


def repo_root():
    return os.environ.get('SCMO_ROOT', '/repo')


def assert_repo_root():
    import singlecellmultiomics
    root = os.path.realpath(repo_root())
    f = os.path.realpath(singlecellmultiomics.__file__)
    if not f.startswith(root + os.sep):
        raise HarnessError(f'singlecellmultiomics imported from {f}, expected under {root}')
    return root


def repo_state():
    root = repo_root()
    try:
        head = subprocess.run(['git', '-C', root, 'rev-parse', 'HEAD'], capture_output=True, text=True, timeout=20).stdout.strip()
        dirty = bool(subprocess.run(['git', '-C', root, 'status', '--porcelain', '-uno'], capture_output=True, text=True, timeout=20).stdout.strip())
    except Exception:
        head, dirty = 'unknown', True
    return head, dirty


# ---------------------------------------------------------------- workers

_ENGINE = None


def _worker_init(prop):
    global _ENGINE
    _ENGINE = load_engine(prop)
    if hasattr(_ENGINE, 'setup'):
        _ENGINE.setup()


def run_case(eng, case, timeout=3600):
    """One case = one execution.  Engines that call repository code inside the worker process (ISOLATE = True) run every case in
    a forked child: whatever an execution leaves behind in module-level or class-level state of the repository (memo tables, default
    arguments, handle registries) dies with it, so a violation can only come from the case's own history and replays from its file."""
    if not getattr(eng, 'ISOLATE', False):
        return eng.execute(case)
    import pickle
    r, w = os.pipe()
    pid = os.fork()
    if pid == 0:
        code = 0
        try:
            os.close(r)
            # (faulthandler's watchdog thread does not exist in the child; touching it here would wait for it for ever)
            import signal
            signal.signal(signal.SIGALRM, signal.SIG_DFL)
            signal.alarm(int(timeout))
            try:
                data = pickle.dumps(('ok', eng.execute(case)))
            except BaseException:
                data = pickle.dumps(('error', traceback.format_exc()))
            off = 0
            while off < len(data):
                off += os.write(w, data[off:off + 65536])
            os.close(w)
        except BaseException:
            code = 3
        finally:
            os._exit(code)
    os.close(w)
    chunks = []
    while True:
        b = os.read(r, 1 << 16)
        if not b:
            break
        chunks.append(b)
    os.close(r)
    os.waitpid(pid, 0)
    if not chunks:
        raise RuntimeError('isolated execution ended without a result (killed or timed out)')
    kind, val = pickle.loads(b''.join(chunks))
    if kind == 'error':
        raise RuntimeError('isolated execution raised:\n' + val)
    return val


def _summarise(eng, case, out, idx, want_sample):
    s = {
        'idx': idx,
        'seed': case.get('run_seed'),
        'digest': out['digest'],
        'sig': hashlib.sha256(str(out.get('sig', out['digest'])).encode()).hexdigest()[:16],
        'nontrivial': bool(out.get('nontrivial', False)),
        'probes': out.get('probes', {}),
        'faults': out.get('faults', {}),
        'steps': out.get('steps', 0),
        'sim_time': out.get('sim_time', 0.0),
        'vacuous': bool(out.get('vacuous', False)),
        'evals': out.get('evals', 1),
        'sigs': out.get('sigs'),
        'violations': out.get('violations', []),
        'extra': out.get('extra', {}),
        'sets': {k: sorted(set(v))[:4000] for k, v in (out.get('sets') or {}).items()},
    }
    if s['violations']:
        s['case'] = case
    if want_sample:
        s['sample'] = eng.sample_view(case, out) if hasattr(eng, 'sample_view') else case
    return s


def _run_chunk(args):
    prop, verif_seed, tier, indices, per_run_timeout, recheck = args
    eng = _ENGINE
    res = []
    for n, idx in enumerate(indices):
        J = getattr(eng, 'SLICES', 1)     # one workload's enumerated fault family may be spread over J runs
        seed = _rng.run_seed(verif_seed, eng.NAME, idx // J)
        faulthandler.dump_traceback_later(per_run_timeout, exit=True)
        try:
            if 'index' in getattr(eng.generate, '__code__', type('c', (), {'co_varnames': ()})).co_varnames:
                case = eng.generate(seed, tier, index=idx // J)     # engines that rotate a configuration axis over consecutive workloads
            else:
                case = eng.generate(seed, tier)
            if J > 1:
                case['slice'] = [idx % J, J]
            case.setdefault('run_seed', seed)
            case.setdefault('property', prop)
            case.setdefault('engine', eng.NAME)
            out = run_case(eng, case, per_run_timeout)
            s = _summarise(eng, case, out, idx, want_sample=(n == 0))
            if recheck and n == len(indices) - 1:
                out2 = run_case(eng, copy.deepcopy(case), per_run_timeout)
                s['recheck'] = (out2['digest'] == out['digest'])
        except Exception:
            faulthandler.cancel_dump_traceback_later()
            return {'error': f'run idx={idx} seed={seed}: ' + traceback.format_exc()}
        finally:
            faulthandler.cancel_dump_traceback_later()
        res.append(s)
    return {'runs': res}


# ---------------------------------------------------------------- findings

def load_known():
    p = os.path.join(VERIF, 'known_findings.json')
    if not os.path.exists(p):
        return []
    with open(p) as f:
        return json.load(f).get('findings', [])


def match_known(v, known):
    for k in known:
        if k.get('property') != v['property']:
            continue
        if k.get('class') != v['class']:
            continue
        sig = k.get('signature')
        if sig is None or sig == v.get('signature') or re.fullmatch(sig, str(v.get('signature'))):
            return k
    return None


# ---------------------------------------------------------------- replay

def write_replay(prop, case, violation, digest, tag):
    d = os.path.join(VERIF, 'replays', prop)
    os.makedirs(d, exist_ok=True)
    head, dirty = repo_state()
    doc = dict(case)
    doc['violation'] = violation
    doc['digest'] = digest
    doc['repo_head'] = head
    doc['tree_dirty'] = dirty
    path = os.path.join(d, f'{tag}.json')
    with open(path, 'w') as f:
        json.dump(doc, f, indent=1, sort_keys=True)
    return path


def replay_file(path):
    """Execute the explicit trace in *this* process; returns (violations, digest)."""
    with open(path) as f:
        doc = json.load(f)
    prop = doc['property']
    eng = load_engine(prop)
    assert_repo_root()
    if hasattr(eng, 'setup'):
        eng.setup()
    case = {k: v for k, v in doc.items() if k not in ('violation', 'digest', 'repo_head', 'tree_dirty')}
    out = run_case(eng, case)
    return doc, out


def replay_main(path):
    doc, out = replay_file(path)
    want = doc.get('violation', {})
    got = [v for v in out.get('violations', []) if v['class'] == want.get('class') and v['property'] == want.get('property')]
    print('REPLAY ' + json.dumps({'digest': out['digest'], 'expected_digest': doc.get('digest'),
                                  'classes': sorted({v['class'] for v in out.get('violations', [])})}))
    if got:
        same = (out['digest'] == doc.get('digest'))
        print(f"VIOLATION property={doc['property']} replay={path}" + ('' if same else ' (digest differs)'))
        for v in got[:3]:
            print('  ' + json.dumps(v, sort_keys=True)[:2000])
        return 1
    print('replay: no violation of the recorded class')
    return 0


def fresh_replay(path):
    """Replay in a fresh interpreter; returns (reproduced, digest_matches)."""
    env = dict(os.environ)
    env['PYTHONHASHSEED'] = '0'
    p = subprocess.run([sys.executable, os.path.join(VERIF, 'check.py'), 'replay', path],
                       capture_output=True, text=True, env=env, timeout=600)
    rep = p.returncode == 1 and 'VIOLATION' in p.stdout
    return rep, rep and '(digest differs)' not in p.stdout, p.stdout[-2000:] + p.stderr[-2000:]


# ---------------------------------------------------------------- main check

def run_check(prop, tier, verif_seed, procs=None, out_evidence=True, max_runs=None, quiet=False):
    t0 = time.time()
    eng = load_engine(prop)
    root = assert_repo_root()
    plan = eng.plan(tier)
    n_runs = plan['runs'] if max_runs is None else min(plan['runs'], max_runs)
    budget = plan.get('budget_s', 60)
    chunk = plan.get('chunk', 8)
    per_run_timeout = plan.get('per_run_timeout', 120)
    procs = procs or int(os.environ.get('VERIF_PROCS', '0')) or min(16, os.cpu_count() or 1)
    if hasattr(eng, 'prepare'):
        eng.prepare()  # once, in the parent, before forking (warm template)

    chunks = [list(range(i, min(i + chunk, n_runs))) for i in range(0, n_runs, chunk)]
    ctx = multiprocessing.get_context('fork')
    runs = []
    errors = []
    skipped = 0
    with cf.ProcessPoolExecutor(max_workers=procs, mp_context=ctx, initializer=_worker_init, initargs=(prop,)) as ex:
        pending = {}
        it = iter(chunks)
        exhausted = False

        def submit_more():
            nonlocal exhausted, skipped
            while not exhausted and len(pending) < procs * 2:
                if time.time() - t0 > budget:
                    rest = list(it)
                    skipped += sum(len(c) for c in rest)
                    exhausted = True
                    break
                try:
                    c = next(it)
                except StopIteration:
                    exhausted = True
                    break
                fut = ex.submit(_run_chunk, (prop, verif_seed, tier, c, per_run_timeout, True))
                pending[fut] = c
        submit_more()
        try:
            while pending:
                done, _ = cf.wait(list(pending), timeout=per_run_timeout * chunk + 60, return_when=cf.FIRST_COMPLETED)
                if not done:
                    errors.append('shard timeout')
                    break
                for fut in done:
                    c = pending.pop(fut)
                    try:
                        r = fut.result()
                    except Exception as e:  # BrokenProcessPool etc.
                        errors.append(f'shard died on chunk {c[:1]}..: {e!r}')
                        continue
                    if 'error' in r:
                        errors.append(r['error'])
                    else:
                        runs.extend(r['runs'])
                if errors:
                    break
                submit_more()
        finally:
            if errors:
                for p in list(getattr(ex, '_processes', {}).values()):
                    try:
                        p.kill()
                    except Exception:
                        pass
                ex.shutdown(wait=False, cancel_futures=True)

    if errors:
        print('HARNESS-ERROR ' + errors[0][-3000:], file=sys.stderr)
        return 2
    if not runs:
        print('HARNESS-ERROR no runs executed', file=sys.stderr)
        return 2
    runs.sort(key=lambda r: r['idx'])

    # ---- determinism rechecks
    bad = [r for r in runs if r.get('recheck') is False]
    if bad:
        print(f'HARNESS-ERROR nondeterministic digest for idx {bad[0]["idx"]} seed {bad[0]["seed"]}', file=sys.stderr)
        return 2
    fresh_interpreter_rechecks = 0
    if tier == 'thorough' and max_runs is None and not os.environ.get('VERIF_NO_SELFTEST'):
        # same seed -> same digest in a FRESH interpreter under another hash seed and another shard count
        n_st = min(plan.get('selftest_n', 48), len(runs))
        env = dict(os.environ, PYTHONHASHSEED='1')
        pr = subprocess.run([sys.executable, os.path.join(VERIF, 'check.py'), 'digests', prop, '--n', str(n_st), '--procs', '5', '--tier', tier],
                            capture_output=True, text=True, env=env, timeout=3600)
        line = [l for l in pr.stdout.splitlines() if l.startswith('DIGESTS ')]
        if pr.returncode != 0 or not line:
            print('HARNESS-ERROR determinism self-test could not run\n' + pr.stderr[-1500:], file=sys.stderr)
            return 2
        other = json.loads(line[0][8:])
        mine = {str(r['idx']): r['digest'] for r in runs}
        diff = [k for k, v in other.items() if k in mine and mine[k] != v]
        if diff:
            print(f'HARNESS-ERROR digests differ in a fresh interpreter (PYTHONHASHSEED=1) for run indices {diff[:8]}', file=sys.stderr)
            return 2
        fresh_interpreter_rechecks = len([k for k in other if k in mine])

    # ---- aggregate
    probes, faults = {}, {}
    sigs = set()
    nontriv = set()
    evals = 0
    steps = 0
    sim_time = 0.0
    vac = 0
    samples = []
    extra = {}
    named_sets = {}
    for r in runs:
        for k, v in (r.get('sets') or {}).items():
            named_sets.setdefault(k, set()).update(v)
        evals += r['evals']
        steps += r['steps']
        sim_time += r['sim_time']
        vac += 1 if r['vacuous'] else 0
        for k, v in r['probes'].items():
            probes[k] = probes.get(k, 0) + v
        for k, v in r['faults'].items():
            faults[k] = faults.get(k, 0) + v
        for k, v in r['extra'].items():
            if isinstance(v, (int, float)):
                extra[k] = extra.get(k, 0) + v
        if r.get('sigs') is not None:   # engine enumerates several sub-cases per run
            for sg, nt in r['sigs']:
                sigs.add(sg)
                if nt:
                    nontriv.add(sg)
        else:
            sigs.add(r['sig'])
            if r['nontrivial']:
                nontriv.add(r['sig'])
        if 'sample' in r and len(samples) < 3:
            samples.append(r['sample'])

    # ---- violations
    known = load_known()
    groups = {}
    for r in runs:
        for v in r['violations']:
            key = (v['property'], v['class'], v.get('signature'))
            groups.setdefault(key, []).append((r, v))
    n_viol = sum(len(g) for g in groups.values())
    new_groups = []
    known_hits = {}
    for key, items in sorted(groups.items(), key=lambda kv: str(kv[0])):
        k = match_known(items[0][1], known)
        if k is not None:
            known_hits.setdefault(json.dumps(k, sort_keys=True), (k, 0))
            kk, c = known_hits[json.dumps(k, sort_keys=True)]
            known_hits[json.dumps(k, sort_keys=True)] = (kk, c + len(items))
        else:
            new_groups.append((key, items))

    exit_code = 0
    lines = []
    for k, c in known_hits.values():
        lines.append(f"KNOWN-FINDING: property={k['property']} {k['what']} [{c} runs]")
    replay_paths = []
    for gi, (key, items) in enumerate(new_groups[:4]):
        r, v = min(items, key=lambda rv: len(json.dumps(rv[0]['case'])))
        case = r['case']
        if hasattr(eng, 'narrow'):      # make the enumerated fault explicit before minimising
            case = eng.narrow(case, v)
        mcase, used = minimise_case(eng, case, v, seconds=plan.get('min_s', 45))
        out = run_case(eng, copy.deepcopy(mcase))
        mv = [x for x in out['violations'] if x['class'] == v['class'] and x['property'] == v['property'] and x.get('signature') == v.get('signature')]
        if not mv:   # minimisation lost it (should not happen): fall back
            mcase = case
            out = run_case(eng, copy.deepcopy(mcase))
            mv = [x for x in out['violations'] if x['class'] == v['class'] and x['property'] == v['property']]
        if not mv:
            print(f'HARNESS-ERROR violation {key} did not reproduce in-process (seed {r["seed"]})', file=sys.stderr)
            return 2
        if hasattr(eng, 'make_explicit'):   # explicit scheduler decisions instead of 'regenerate from seed'
            xcase = eng.make_explicit(mcase, out)
            xout = run_case(eng, copy.deepcopy(xcase))
            if xout['digest'] != out['digest']:
                print(f'HARNESS-ERROR explicit-schedule replay of seed {r["seed"]} has a different digest', file=sys.stderr)
                return 2
            mcase, out = xcase, xout
        tag = f"{verif_seed}-{r['seed']}-{gi}"
        path = write_replay(v['property'], mcase, mv[0], out['digest'], tag)
        ok, same, txt = fresh_replay(path)
        if not ok:
            print(f'HARNESS-ERROR replay of {path} did not reproduce in a fresh interpreter\n{txt}', file=sys.stderr)
            return 2
        if not same:
            print(f'HARNESS-ERROR replay of {path} reproduced with a different digest\n{txt}', file=sys.stderr)
            return 2
        lines.append(f"VIOLATION property={v['property']} replay={path}")
        lines.append(f"  class={v['class']} signature={v.get('signature')} runs={len(items)} minimised_with={used}_replays detail={json.dumps(mv[0].get('detail'), sort_keys=True)[:600]}")
        replay_paths.append(path)
        exit_code = 1
    if len(new_groups) > 4:
        lines.append(f'  (+{len(new_groups) - 4} further violation groups not minimised)')
    if os.environ.get('VERIF_VERBOSE'):
        for key, items in new_groups:
            lines.append(f'  group {key} runs={len(items)} e.g. seed={items[0][0]["seed"]} {json.dumps(items[0][1].get("detail"), sort_keys=True)[:300]}')

    # ---- reach gate
    missing = [p for p in getattr(eng, 'REQUIRED_PROBES', []) if probes.get(p, 0) == 0]
    if missing and exit_code == 0 and skipped == 0 and max_runs is None:
        print(f'HARNESS-ERROR harness did not reach probes {missing}', file=sys.stderr)
        return 2

    wall = time.time() - t0
    if out_evidence and not os.environ.get('VERIF_NO_EVIDENCE'):
        level = eng.LEVEL
        cov = {
            'evaluations': int(evals),
            'distinct_nontrivial': int(len(nontriv)),
            'rule': eng.RULE,
            'samples': samples,
            'simulated_runs': len(runs),
            'runs_skipped_by_budget': skipped,
            'runs_per_hour': round(len(runs) / wall * 3600),
            'evaluations_per_hour': round(evals / wall * 3600),
            'distinct_signatures': len(sigs),
            'scheduler_steps': steps,
            'simulated_time_s': round(sim_time, 3),
            'faults_fired': faults,
            'probes': probes,
            'vacuous_runs': vac,
            'components': eng.COMPONENTS,
            'repo_root': root,
            'determinism_rechecks': sum(1 for r in runs if 'recheck' in r),
            'fresh_interpreter_digest_rechecks': fresh_interpreter_rechecks,
            'known_findings_hit': [k['what'] for k, _ in known_hits.values()],
            'replays': replay_paths,
            'procs': procs,
        }
        cov.update(extra)
        for k, v in named_sets.items():
            cov['distinct_' + k] = len(v)
        if getattr(eng, 'EXHAUSTIVE_NOTE', None):
            cov['exhaustive_axes'] = eng.EXHAUSTIVE_NOTE
        ev = {
            'property_id': prop, 'tier': tier, 'seed': int(verif_seed), 'level': level,
            'coverage': cov, 'assumptions': eng.ASSUMPTIONS, 'wall_s': round(wall, 2),
            'violations': n_viol,
        }
        os.makedirs(os.path.join(VERIF, 'evidence'), exist_ok=True)
        tmp = os.path.join(VERIF, 'evidence', f'.{prop}.json.tmp')
        with open(tmp, 'w') as f:
            json.dump(ev, f, indent=1, sort_keys=True, default=str)
        os.replace(tmp, os.path.join(VERIF, 'evidence', f'{prop}.json'))

    for l in lines:
        print(l)
    if not quiet:
        print(f'{prop} {tier}: runs={len(runs)} evaluations={evals} distinct_nontrivial={len(nontriv)} '
              f'violations={n_viol} faults={sum(faults.values())} skipped={skipped} wall={wall:.1f}s exit={exit_code}')
    return exit_code


def minimise_case(eng, case, v, seconds=45):
    def still(c):
        out = run_case(eng, copy.deepcopy(c))
        return any(x['class'] == v['class'] and x['property'] == v['property'] and x.get('signature') == v.get('signature')
                   for x in out.get('violations', []))
    lp = getattr(eng, 'LIST_PATHS', ())
    if callable(lp):
        lp = lp(case)
    sh = getattr(eng, 'SHRINKERS', ())
    return _ddmin.minimise(case, still, list_paths=lp, scalar_shrinkers=sh, seconds=seconds, replays=400)


def digests(prop, tier, verif_seed, n, procs):
    """print idx->digest for the determinism self-test"""
    eng = load_engine(prop)
    assert_repo_root()
    if hasattr(eng, 'prepare'):
        eng.prepare()
    ctx = multiprocessing.get_context('fork')
    chunks = [list(range(i, min(i + 4, n))) for i in range(0, n, 4)]
    out = {}
    with cf.ProcessPoolExecutor(max_workers=procs, mp_context=ctx, initializer=_worker_init, initargs=(prop,)) as ex:
        for r in ex.map(_run_chunk, [(prop, verif_seed, tier, c, 300, False) for c in chunks]):
            if 'error' in r:
                raise HarnessError(r['error'])
            for s in r['runs']:
                out[s['idx']] = s['digest']
    return out
