"""SimFS shim + SimClock for singlecellmultiomics.pyutils.handlelimiter.

The shim replaces the *names* `gzip`, `open` and `time` inside the handlelimiter
module.  Compression is real (gzip.GzipFile), storage is an in-memory byte
buffer per path, and every open is subject to the fault plan:

  budget      EMFILE when `budget` shim handles are already open
  transient   {global open-attempt index: errno}
  permanent   set of paths that always fail with EACCES
"""
import errno as _errno
import gzip as _real_gzip
import io
import os


class SimClock:
    """integer-tick clock; modes: monotone | ties | frozen | backjump"""

    def __init__(self, mode='monotone', jump_at=None, coarse=4):
        self.mode = mode
        self.ticks = 0
        self.reads = 0
        self.jump_at = jump_at
        self.coarse = coarse
        self.base = 1_500_000_000.0

    def advance(self, n=1):
        self.ticks += n

    def time(self):
        self.reads += 1
        self.advance(1)
        t = self.ticks
        if self.mode == 'frozen':
            return self.base
        if self.mode == 'ties':
            return self.base + (t // self.coarse)
        if self.mode == 'backjump' and self.jump_at is not None and self.reads >= self.jump_at:
            return self.base + t - 10_000
        return self.base + t

    def sleep(self, s):
        self.advance(int(s * 1000))


class _GzHandle:
    def __init__(self, fs, path, raw, level):
        self.fs, self.path = fs, path
        self.raw = raw
        self.gz = _real_gzip.GzipFile(filename='', mode='wb', compresslevel=level, fileobj=raw, mtime=0)
        self.closed = False

    def write(self, b):
        if self.closed:
            raise ValueError('write to closed file')
        return self.gz.write(b)

    def close(self):
        if self.closed:
            return
        self.closed = True
        self.gz.close()
        self.fs._release(self.path)


class _TextHandle:
    def __init__(self, fs, path, raw):
        self.fs, self.path, self.raw = fs, path, raw
        self.closed = False

    def write(self, s):
        if self.closed:
            raise ValueError('write to closed file')
        if not isinstance(s, str):
            raise TypeError('write() argument must be str')
        self.raw.write(s.encode())

    def close(self):
        if self.closed:
            return
        self.closed = True
        self.fs._release(self.path)


class SimFS:
    def __init__(self, log, budget=None, transient=None, permanent=None):
        self.files = {}          # path -> BytesIO
        self.open_count = 0
        self.open_paths = {}     # path -> count
        self.attempts = 0        # global open-attempt index
        self.log = log
        self.budget = budget
        self.transient = dict(transient or {})
        self.permanent = set(permanent or ())
        self.fired = {}
        self.max_open = 0
        self.last_fail_others_open = None
        self.attempt_trace = []  # (attempt index, path, others_open, outcome)
        self.handles = []        # strong refs: a leaked handle is never finalised by the GC mid-run

    # -- seam objects ----------------------------------------------------
    def gzip_module(self):
        fs = self

        class _Gzip:
            GzipFile = _real_gzip.GzipFile

            @staticmethod
            def open(path, mode='rb', compresslevel=9, *a, **k):
                return fs._open(path, mode, gz=True, level=compresslevel)
        return _Gzip()

    def open_builtin(self):
        def _open(path, mode='r', *a, **k):
            return self._open(path, mode, gz=False, level=None)
        return _open

    # -- core ------------------------------------------------------------
    def _fire(self, kind):
        self.fired[kind] = self.fired.get(kind, 0) + 1

    def _open(self, path, mode, gz, level):
        idx = self.attempts
        self.attempts += 1
        others = self.open_count
        err = None
        if path in self.permanent:
            err = (_errno.EACCES, 'permanent')
        elif idx in self.transient:
            err = (self.transient[idx], 'transient')
        elif self.budget is not None and self.open_count >= self.budget:
            err = (_errno.EMFILE, 'budget')
        if err is not None:
            self._fire(err[1] + ':' + _errno.errorcode.get(err[0], str(err[0])))
            self.log.add('open-fail', idx, path, mode, others, err[1], err[0])
            self.attempt_trace.append((idx, path, others, 'fail'))
            raise OSError(err[0], os.strerror(err[0]), path)
        m = mode.replace('b', '').replace('t', '')
        if m == 'w':
            self.files[path] = io.BytesIO()
        elif m == 'a':
            self.files.setdefault(path, io.BytesIO())
            self.files[path].seek(0, 2)
        else:
            raise ValueError(f'SimFS: unsupported mode {mode}')
        self.open_count += 1
        self.open_paths[path] = self.open_paths.get(path, 0) + 1
        self.max_open = max(self.max_open, self.open_count)
        self.log.add('open', idx, path, mode, others)
        self.attempt_trace.append((idx, path, others, 'ok'))
        raw = self.files[path]
        if gz:
            h = _GzHandle(self, path, raw, level if level is not None else 9)
        else:
            h = _TextHandle(self, path, raw)
        self.handles.append(h)
        return h

    def _release(self, path):
        self.open_count -= 1
        self.open_paths[path] -= 1
        self.log.add('close', path)

    def content(self, path):
        return self.files[path].getvalue()
