"""Deterministic-simulation machinery for BuysDB/SingleCellMultiOmics (see /verif/DESIGN.md)."""
