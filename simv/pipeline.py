"""One lifetime of the tagger (bamtagmultiome) inside a forked child under the simulator.

parent (warm shard)                          child (fork)
  scratch dir, input BAM, plan  --fork-->     chdir(scratch); stdout/stderr -> /dev/null
  waitpid (hard timeout)                      seams: SimPool, SimClock.sleep, seeded uuid4,
  read child_result.json / crash.json          fault-plan proxies (pysam/os/shutil names inside the
  inspect the directory -> oracles             repo modules), crash tracer on the pipeline functions
                                              run_multiome_tagging_cmd(argv) ; write result ; _exit

A crash is os._exit at the k-th crossing of a (function, line) of the watch-list: no finally, no
__exit__, no flush - exactly "process killed".  Exceptions are injected only at I/O seams.
"""
import errno
import json
import os
import re
import signal
import sys
import time
import traceback
import uuid as _uuid

from .rng import stream
from .log import EventLog
from .pool import Scheduler, SimPoolFactory, ForkPoolFactory, SimHang
from .simfs import SimClock

WATCH = {
    ('bamtagmultiome.py', 'run_multiome_tagging'), ('bamtagmultiome.py', 'tag_multiome_single_thread'),
    ('bamtagmultiome.py', 'tag_multiome_multi_processing'), ('bamtagmultiome.py', 'write_status'),
    ('bamFunctions.py', 'sorted_bam_file'), ('bamFunctions.py', 'sort_and_index'),
    ('bamFunctions.py', 'add_readgroups_to_header'), ('bamFunctions.py', 'replace_bam_header'),
    ('bamFunctions.py', 'merge_bams'), ('tagging.py', 'run_tagging_tasks'), ('tagging.py', 'run_tagging_task'),
    ('tagging.py', 'generate_tasks'),
}
SUCCESS = 'Reached end. All ok!'


class _Names:
    """uuid4 drawn from a separate stream (the number of names drawn never perturbs scheduling)"""

    def __init__(self, seed):
        self.seed = seed
        self.rng = stream(seed, 'names')
        self.n = 0

    def reseed(self, tag):
        self.rng = stream(self.seed, f'names/{tag}')

    def uuid4(self):
        self.n += 1
        return _uuid.UUID(int=self.rng.getrandbits(128), version=4)


class _ModProxy:
    """stands for a module bound to a name inside one repo module; consults the fault plan at chosen callables"""

    def __init__(self, real, faults, prefix, wrap_writer=False, wrap_reader=False):
        self.__dict__['_real'] = real
        self.__dict__['_faults'] = faults
        self.__dict__['_prefix'] = prefix
        self.__dict__['_wrap_writer'] = wrap_writer
        self.__dict__['_wrap_reader'] = wrap_reader

    def __getattr__(self, name):
        real = getattr(self._real, name)
        seam = f'{self._prefix}.{name}'
        if seam in self._faults.seams:
            def call(*a, **k):
                if self._faults.pending(seam) == 'SamtoolsError+partial':
                    # the library call runs, its output loses the final (EOF) block - as when the last write is refused by a full disk -
                    # and the call reports failure: a failing call that leaves partial output behind
                    try:
                        real(*a, **k)
                    finally:
                        target = None
                        if name == 'sort' and '-o' in a:
                            target = a[a.index('-o') + 1]
                        elif name == 'merge' and a:
                            target = a[0]
                        if target and os.path.exists(target) and os.path.getsize(target) > 28:
                            with open(target, 'r+b') as f:
                                f.truncate(os.path.getsize(target) - 28)
                self._faults.hit(seam)
                return real(*a, **k)
            return call
        if name == 'AlignmentFile' and self._wrap_writer:
            faults = self._faults

            def open_(path, mode='r', *a, **k):
                h = real(path, mode, *a, **k)
                if 'w' in mode:
                    return _Writer(h, faults)
                return h
            return open_
        if name == 'AlignmentFile' and self._wrap_reader:
            return reader_open(self._faults)
        return real

    def __setattr__(self, name, value):
        setattr(self._real, name, value)


_READER_CLS = []


def reader_open(faults):
    """opener for the tagger's INPUT: a genuine subclass of pysam.AlignmentFile (isinstance checks in the repository keep working)
    whose fetch() consults the fault plan once per delivered record - the read(2) side of the I/O seam"""
    import pysam
    if not _READER_CLS:
        class _Reader(pysam.AlignmentFile):
            _faults = None

            def fetch(self, *a, **k):
                it = pysam.AlignmentFile.fetch(self, *a, **k)
                f = type(self)._faults

                def gen():
                    for rec in it:
                        f.hit('AlignmentFile.read')
                        yield rec
                return gen()
        _READER_CLS.append(_Reader)
    cls = _READER_CLS[0]
    cls._faults = faults

    def open_(path, mode='r', *a, **k):
        if 'w' in mode:
            return pysam.AlignmentFile(path, mode, *a, **k)
        return cls(path, mode, *a, **k)
    return open_


class _Writer:
    """thin delegating wrapper around a pysam.AlignmentFile opened for writing: counts write()/close()"""

    def __init__(self, h, faults):
        self._h, self._faults = h, faults

    def write(self, read):
        self._faults.hit('AlignmentFile.write')
        return self._h.write(read)

    def close(self):
        self._faults.hit('AlignmentFile.close')
        return self._h.close()

    def __enter__(self):
        return self

    def __exit__(self, *a):
        self._h.close()
        return False

    def __getattr__(self, name):
        return getattr(self._h, name)


class FaultPlan:
    """raise E at the n-th call of seam s"""
    SEAMS = ['pysam.sort', 'pysam.index', 'pysam.merge', 'os.rename', 'os.remove', 'move', 'shutil.rmtree',
             'AlignmentFile.write', 'AlignmentFile.close', 'pysam.idxstats', 'AlignmentFile.read']

    def __init__(self, plan, log):
        self.plan = {}
        for f in plan or []:
            self.plan.setdefault(f['seam'], {})[int(f['nth'])] = f.get('error', 'OSError:ENOSPC')
        self.seams = set(self.SEAMS)
        self.counts = {}
        self.fired = {}
        self.log = log

    def pending(self, seam):
        return self.plan.get(seam, {}).get(self.counts.get(seam, 0))

    def hit(self, seam):
        n = self.counts.get(seam, 0)
        self.counts[seam] = n + 1
        err = self.plan.get(seam, {}).get(n)
        if err is None:
            return
        self.fired[seam] = self.fired.get(seam, 0) + 1
        self.log.add('fault', seam, n, err)
        if err.startswith('SamtoolsError'):
            import pysam
            raise pysam.SamtoolsError(f'injected failure of {seam} (call {n})')
        if err == 'MemoryError':      # a failing allocation
            raise MemoryError(f'injected allocation failure at {seam} call {n}')
        code = getattr(errno, err.split(':')[1]) if ':' in err else errno.EIO
        raise OSError(code, os.strerror(code) + f' (injected at {seam} call {n})')


def _tracer_factory(mode, plan, crossings, die):
    """mode 'record': append every line crossing; mode 'kill': die at the k-th crossing of (func, line)"""
    counts = {}

    def local(frame, event, arg):
        if event == 'line':
            key = (frame.f_code.co_name, frame.f_lineno)
            if mode == 'record':
                crossings.append(key)
            else:
                if key[0] == plan['func'] and key[1] == plan['line']:
                    c = counts.get(key, 0)
                    counts[key] = c + 1
                    if c == plan['k']:
                        die(key, c)
        return local

    def glob(frame, event, arg):
        co = frame.f_code
        if (os.path.basename(co.co_filename), co.co_name) in WATCH:
            return local
        return None
    return glob


def _child(d, argv, sim, out_fd):
    import singlecellmultiomics.universalBamTagger.bamtagmultiome as tm
    import singlecellmultiomics.universalBamTagger.tagging as tagging
    import singlecellmultiomics.bamProcessing.bamFunctions as bf
    import pysam
    os.chdir(d)
    if sim.get('fsize') is not None:      # real kernel fault: write(2) beyond N bytes fails with EFBIG (SIGXFSZ is ignored by CPython)
        import resource
        signal.signal(signal.SIGXFSZ, signal.SIG_IGN)
        resource.setrlimit(resource.RLIMIT_FSIZE, (int(sim['fsize']), int(sim['fsize'])))
    devnull = os.open(os.devnull, os.O_WRONLY)
    os.dup2(devnull, 1)
    os.dup2(devnull, 2)
    sys.stdout = open(os.devnull, 'w')
    sys.stderr = open(os.devnull, 'w')
    log = EventLog(sim.get('seed'))
    res = {'exception': None, 'hung': False, 'jobs': [], 'crossings': None}
    names = _Names(sim.get('seed', '0'))
    clock = SimClock('monotone')
    sched = Scheduler(sim.get('schedule'), stream(sim.get('seed', '0'), 'schedule'), log)
    faults = FaultPlan(sim.get('faults'), log)
    jobs = res['jobs']

    def observe(arg, r, i):
        info = {'task': i, 'regions': [[t.get('contig'), t.get('start'), t.get('end'), t.get('fetch_start'), t.get('fetch_end')] for t in arg[1]],
                'file': None, 'records': []}
        try:
            tf = r[0]
            if tf is not None:
                info['file'] = os.path.basename(tf)
                with pysam.AlignmentFile(tf) as a:
                    for rec in a.fetch(until_eof=True):
                        info['records'].append([rec.query_name, 1 if rec.is_read1 else (2 if rec.is_read2 else 0),
                                                rec.get_tag('DS') if rec.has_tag('DS') else None, rec.reference_name,
                                                rec.get_tag('ix') if rec.has_tag('ix') else None])
        except Exception as e:     # observation only
            info['observe_error'] = repr(e)
        return info

    def task_hook(func, arg, pid, i, worker_side=False, parent_side=False):
        if parent_side:            # forked workers: the observation made inside the worker arrives with the result
            jobs.append(arg)
            return None
        r = func(arg)
        info = observe(arg, r, i)
        if worker_side:
            return r, info
        jobs.append(info)
        return r

    wf = {}
    for f in sim.get('worker_faults') or []:
        wf[('*', int(f['task']))] = f['kind']
    fac = (ForkPoolFactory if sim.get('isolation') == 'fork' else SimPoolFactory)(sched, faults=wf, task_hook=task_hook, width=sim.get('width'),
                         exception_factory=lambda i: OSError(errno.EIO, f'injected worker I/O failure in task {i}'))
    fac.on_worker_start = lambda wid: names.reseed(f'worker{wid}')
    # ---- seams ------------------------------------------------------------
    import datetime as _dt

    class _SimDatetime(_dt.datetime):
        # simulated wall clock: the provenance line in the output header must not depend on the real date
        @classmethod
        def now(cls, tz=None):
            return _dt.datetime(2020, 1, 1) + _dt.timedelta(milliseconds=clock.ticks)
    tm.datetime = _SimDatetime
    sys.argv = ['bamtagmultiome.py'] + list(argv)      # the command line is recorded in the @PG header line
    tm.Pool = fac.Pool
    tm.sleep = clock.sleep
    tm.uuid = names
    tagging.uuid4 = names.uuid4
    bf.uuid = names
    tl = (sim.get('tiling') or {}).get('time_limit')
    if tl:
        # the clock the per-segment time limit reads: advances 1 ms per reading and STALLS once (machine suspended, NFS hang) for longer than the limit
        class _TaskClock(_dt.datetime):
            calls = 0

            @classmethod
            def now(cls, tz=None):
                cls.calls += 1
                return _dt.datetime(2020, 1, 1) + _dt.timedelta(milliseconds=cls.calls, seconds=(tl.get('stall_s', 10 ** 6) if cls.calls > tl['stall_at_call'] else 0))
        tagging.datetime = _TaskClock
    if sim.get('real_pool'):
        # fidelity cross-check of the stub: the real fork-based pool.  Forked workers would all inherit the same
        # name stream (-> identical temp file names), so the real uuid4 is left in place for the workers.
        import multiprocessing
        tm.Pool = multiprocessing.get_context('fork').Pool
        tagging.uuid4 = _uuid.uuid4
        bf.uuid = _uuid
    if sim.get('faults') is not None:
        bf.pysam = _ModProxy(pysam, faults, 'pysam', wrap_writer=True)
        bf.os = _ModProxy(os, faults, 'os')
        tm.pysam = _ModProxy(pysam, faults, 'pysam', wrap_reader=True)
        tagging.AlignmentFile = reader_open(faults)
        if hasattr(tm, 'shutil'):
            tm.shutil = _ModProxy(tm.shutil, faults, 'shutil')
        if hasattr(bf, 'move'):
            real_move = bf.move

            def move(*a, **k):
                faults.hit('move')
                return real_move(*a, **k)
            bf.move = move
    crossings = []

    def flush_result():
        res['schedule_trace'] = sched.trace
        res['sched_steps'] = sched.steps
        res['sim_time'] = clock.ticks / 1000.0
        res['faults_fired'] = dict(faults.fired)
        res['pool_fired'] = dict(fac.fired_counts)
        res['pool_orders'] = [p.order for p in fac.pools]
        res['digest_events'] = log.digest()
        res['names_drawn'] = names.n
        res['seam_calls'] = dict(faults.counts)
        if sim.get('trace') == 'record':
            res['crossings'] = crossings
        data = json.dumps(res).encode()
        off = 0
        while off < len(data):
            off += os.write(out_fd, data[off:off + 65536])
        os.close(out_fd)

    main_pid = os.getpid()

    def die(key, c):
        if os.getpid() != main_pid:     # a forked pool worker reached the crash point: only that worker dies (its result never arrives)
            os._exit(137)
        res['crashed_at'] = [key[0], key[1], c]
        sys.settrace(None)
        flush_result()
        os._exit(137)

    if sim.get('trace'):
        sys.settrace(_tracer_factory(sim['trace'], sim.get('crash'), crossings, die))
    try:
        if sim.get('api') == 'tiling':
            _run_tiling(tm, argv, sim)
        else:
            tm.run_multiome_tagging_cmd(argv)
    except SimHang as e:
        res['hung'] = True
        res['exception'] = 'SimHang: ' + str(e)
    except SystemExit as e:
        res['exception'] = f'SystemExit({e.code})'
    except BaseException as e:
        res['exception'] = f'{type(e).__name__}: {e}'[:500]
        res['traceback'] = traceback.format_exc()[-1500:]
    finally:
        sys.settrace(None)
    flush_result()
    os._exit(0)


def _run_tiling(tm, argv, sim):
    """region-tiling API of tag_multiome_multi_processing with the same iterator arguments the CLI would build"""
    captured = {}
    real = tm.tag_multiome_multi_processing

    def capture(**kw):
        captured.update(kw)
    tm.tag_multiome_multi_processing = capture
    try:
        tm.run_multiome_tagging_cmd(argv + ['--multiprocess'])
    finally:
        tm.tag_multiome_multi_processing = real
    kw = dict(captured)
    t = sim['tiling']
    kw.update(one_contig_per_process=False, bp_per_segment=t['bp_per_segment'], bp_per_job=t['bp_per_job'],
              fragment_size=t['fragment_size'], n_threads=sim.get('width') or 2)
    if t.get('time_limit'):     # -max_time_per_segment: a segment that runs longer is dropped and reported in the output header
        kw['max_time_per_segment'] = t['time_limit']['limit']
    if t.get('job_bed'):        # -jobbed: the job list is also written out for inspection
        kw['job_bed_file'] = 'jobs.bed.gz' if t['job_bed'] == 'gz' else 'jobs.bed'
    real(**kw)


def run_lifetime(d, argv, sim, timeout=120):
    """fork, run, wait.  The child's result comes back through a pipe (a file-size limit must not affect it)."""
    import select
    rfd, wfd = os.pipe()
    pid = os.fork()
    if pid == 0:
        os.close(rfd)
        try:
            _child(d, argv, sim, wfd)
        except BaseException:
            try:
                os.write(wfd, json.dumps({'harness': traceback.format_exc()[-3000:]}).encode())
            finally:
                os._exit(99)
    os.close(wfd)
    t0 = time.time()
    chunks = []
    try:
        while True:
            left = timeout - (time.time() - t0)
            if left <= 0:
                os.kill(pid, signal.SIGKILL)
                os.waitpid(pid, 0)
                raise RuntimeError(f'tagger child exceeded {timeout}s wall clock (harness timeout, not a verdict)')
            r, _, _ = select.select([rfd], [], [], min(left, 1.0))
            if r:
                b = os.read(rfd, 1 << 16)
                if not b:
                    break
                chunks.append(b)
    finally:
        os.close(rfd)
    _, status = os.waitpid(pid, 0)
    code = os.WEXITSTATUS(status) if os.WIFEXITED(status) else -os.WTERMSIG(status)
    data = b''.join(chunks)
    if not data:
        return {'exit': code, 'no_result': True}
    # scratch directory names are random: they must never reach an event log / digest
    res = json.loads(re.sub(r'simv-[A-Za-z0-9_]{6,12}', 'simv-SCRATCH', data.decode()))
    if 'harness' in res:
        raise RuntimeError('harness failure in child: ' + res['harness'])
    res['exit'] = code
    return res


# --------------------------------------------------------------------------- observation

def read_status(out_bam):
    p = out_bam.replace('.bam', '.status.txt')
    if not os.path.exists(p):
        return None
    with open(p) as f:
        return f.read().strip()


def canonical_records(path, with_tags=False, drop_tags=('mi', 'ix')):
    """list of canonical records of a BAM (raises when it cannot be read to the end)"""
    import pysam
    from .gen.library import identity_of
    out = []
    with pysam.AlignmentFile(path, check_sq=False) as a:
        for r in a.fetch(until_eof=True):
            ident = identity_of(r.query_name)
            mate = 1 if r.is_read1 else (2 if r.is_read2 else 0)
            rec = {'id': ident, 'mate': mate, 'seq': r.query_sequence, 'qual': r.qual, 'ref': r.reference_name,
                   'pos': r.reference_start, 'cigar': r.cigarstring, 'flag': r.flag, 'mapq': r.mapping_quality,
                   'mref': r.next_reference_name, 'mpos': r.next_reference_start, 'tlen': r.template_length,
                   'name': r.query_name, 'sec': bool(r.is_secondary or r.is_supplementary)}
            if with_tags:
                rec['tags'] = {k: (v if not hasattr(v, 'tolist') else v.tolist()) for k, v in r.get_tags() if k not in drop_tags}
                rec['alltags'] = {k: (v if not hasattr(v, 'tolist') else v.tolist()) for k, v in r.get_tags()}
            out.append(rec)
    return out


def check_sorted_indexed(path):
    """(problems list) coordinate sorted, EOF block, index serves fetch"""
    import pysam
    problems = []
    if not os.path.exists(path):
        return ['missing']
    try:
        with open(path, 'rb') as f:
            f.seek(-28, 2)
            eof = f.read()
        if eof != b'\x1f\x8b\x08\x04\x00\x00\x00\x00\x00\xff\x06\x00BC\x02\x00\x1b\x00\x03\x00\x00\x00\x00\x00\x00\x00\x00\x00':
            problems.append('no-eof-block')
    except OSError:
        problems.append('unreadable')
        return problems
    try:
        with pysam.AlignmentFile(path) as a:
            last = (-1, -1)
            n = 0
            unplaced = False
            for r in a.fetch(until_eof=True):
                n += 1
                if r.reference_id < 0:
                    unplaced = True
                    continue
                if unplaced:
                    problems.append('placed-after-unplaced')
                    break
                k = (r.reference_id, r.reference_start)
                if k < last:
                    problems.append('not-sorted')
                    break
                last = k
            if a.header.to_dict().get('HD', {}).get('SO') != 'coordinate':
                problems.append('header-not-SO-coordinate')
    except Exception as e:
        problems.append('scan-failed:' + type(e).__name__)
        return problems
    if not (os.path.exists(path + '.bai') or os.path.exists(path + '.csi')):
        problems.append('no-index')
    else:
        try:
            with pysam.AlignmentFile(path) as a:
                m = 0
                for c in a.references:
                    for _ in a.fetch(c):
                        m += 1
                with pysam.AlignmentFile(path) as b:
                    placed = sum(1 for r in b.fetch(until_eof=True) if r.reference_id >= 0)
                if m != placed:
                    problems.append('index-fetch-mismatch')
        except Exception as e:
            problems.append('index-unusable:' + type(e).__name__)
    return problems
