"""Delta debugging over explicit trace files."""
import copy
import time


class Budget:
    def __init__(self, seconds=60.0, replays=400):
        self.deadline = time.monotonic() + seconds
        self.replays = replays
        self.used = 0

    def ok(self):
        return self.used < self.replays and time.monotonic() < self.deadline

    def tick(self):
        self.used += 1


def ddmin_list(items, test, budget):
    """Return a (1-)minimal sublist of items for which test(sublist) is True."""
    items = list(items)
    n = 2
    while len(items) >= 1 and budget.ok():
        chunk = max(1, len(items) // n)
        subsets = [items[i:i + chunk] for i in range(0, len(items), chunk)]
        reduced = False
        # try complements (removing one chunk)
        for i in range(len(subsets)):
            if not budget.ok():
                break
            comp = [x for j, s in enumerate(subsets) if j != i for x in s]
            budget.tick()
            if test(comp):
                items = comp
                n = max(n - 1, 2)
                reduced = True
                break
        if not reduced:
            if chunk == 1:
                break
            n = min(len(items), n * 2)
    return items


def _get(case, path):
    o = case
    for p in path:
        o = o[p]
    return o


def _set(case, path, value):
    o = case
    for p in path[:-1]:
        o = o[p]
    o[path[-1]] = value


def minimise(case, still_fails, list_paths=(), scalar_shrinkers=(), seconds=60.0, replays=400):
    """case: JSON-able dict.  still_fails(case)->bool (same violation class).

    list_paths: key paths (tuples) of lists to ddmin, in order.
    scalar_shrinkers: callables case -> iterable of simpler candidate cases.
    """
    budget = Budget(seconds, replays)
    best = copy.deepcopy(case)
    changed = True
    rounds = 0
    while changed and budget.ok() and rounds < 4:
        rounds += 1
        changed = False
        for path in list_paths:
            try:
                cur = _get(best, path)
            except (KeyError, IndexError, TypeError):
                continue
            if not isinstance(cur, list) or not cur:
                continue

            def t(sub, path=path):
                c = copy.deepcopy(best)
                _set(c, path, sub)
                try:
                    return still_fails(c)
                except Exception:
                    return False
            new = ddmin_list(cur, t, budget)
            if len(new) < len(cur):
                _set(best, path, new)
                changed = True
        for shr in scalar_shrinkers:
            progress = True
            while progress and budget.ok():
                progress = False
                for cand in shr(copy.deepcopy(best)):
                    if not budget.ok():
                        break
                    budget.tick()
                    try:
                        ok = still_fails(cand)
                    except Exception:
                        ok = False
                    if ok:
                        best = cand
                        changed = True
                        progress = True
                        break
    return best, budget.used
