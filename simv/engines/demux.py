"""C01 - demultiplexing conserves every read pair (demultiplexed XOR rejected).

The loader loop is a stream processor: 1-2 source streams read in lock step, two sinks, an
early cut-off, an exception path, and (one file per cell) a sink sitting on HandleLimiter.
The property is conservation / exactly-once over that I/O history.

Real: DemultiplexingStrategyLoader.demultiplex, every registered strategy, BarcodeParser,
FastqIterator on real gz files in scratch, FastqHandle, HandleLimiter, gzip.
Stub: recording proxies around the two sinks and FastqIterator.__next__ (they delegate);
in per-cell mode SimFS with an fd budget behind HandleLimiter.
"""
import contextlib
import gzip
import io
import os
import re

from ..rng import Streams, weighted
from ..log import EventLog
from ..scratch import scratch
from ..simfs import SimFS, SimClock

NAME = 'demux'
PROPERTY = 'C01'
LEVEL = 'exploration'
RULE = ('A case is one seeded FASTQ library (0..300 reads/pairs; per read a class from {exact whitelist barcode, 1-mismatch, 2-mismatch, '
        'unknown, truncated before/inside/just after the barcode+UMI prefix, empty, all-N, N in UMI}; phred characters over 33..126 with a '
        'realistic bulk and a deliberate tail; header styles Illumina 11-field / integer index / no index / 7-field / 3-DEC / already '
        'demultiplexed; known, unknown and absent sequencing indices) x one registered strategy x hd in {0,1} x rejects handle on/off x '
        'joint / one-file-per-cell output (maxHandles 1..64, prune cadence, fd budget k on SimFS) x maxReadPairs in {None,1,n/2,n,n+5}. '
        'Oracle over the recorded I/O history: one write per read pair to exactly one sink, both mates, input order, mate-synchronised files, '
        'valid gzip/FASTQ, rejects carry RR and original bases/qualities, counters equal records written. '
        'Non-trivial: at least one pair accepted AND one rejected in the same run; distinct = distinct event-log digests among those.')
ASSUMPTIONS = [
    'inputs are well-formed FASTQ with equal mate counts (truncated files / unequal mates are excluded by the statement)',
    'paired-only strategies get paired input, *_SINGLE_END strategies single-end input (feeding single-end data to a paired layout is misuse, not claimed)',
    'library names are short (overlong headers are refused loudly by design: C04)',
    'which sink a read goes to and the content of accepted records are not checked here (C03/C02)',
    'the fault/schedule axis is narrow (fd budget, prune cadence, cut-off point); the wide axis is the seeded workload',
]
COMPONENTS = {
    'real': ['demux.py __main__ (argument handling, library/lane detection, -n budget across lanes, --norejects, --scsepf, -fh, log file) re-executed with runpy in a forked child for ~1% (quick) / 4% (thorough) of the cases', 'DemultiplexingStrategyLoader.demultiplex', 'all registered strategy classes', 'BarcodeParser', 'FastqIterator', 'FastqHandle', 'HandleLimiter', 'gzip'],
    'stub': ['recording proxies around targetFile / rejectHandle / FastqIterator.__next__ (delegating)', 'SimFS fd budget + SimClock behind HandleLimiter in per-cell mode'],
}
ISOLATE = True      # every case runs in a forked child of the worker: no repository state (shared counters, default arguments) travels between cases or into the forked command-line child
REQUIRED_PROBES = ['cli_two_libraries_in_one_invocation', 'cli_chunked_workflow', 'cli_argv_shuffled', 'cli_rerun_into_existing_output', 'cli_run', 'cli_multi_lane', 'cli_cutoff_hit', 'accepted_and_rejected_in_one_run', 'cutoff_hit', 'per_cell_output', 'fd_budget_fault_fired', 'no_reject_handle', 'high_phred_in_umi', 'unknown_index']

_LOADERS = {}
_INDEXES = None


def plan(tier):
    if tier == 'quick':
        return {'runs': 12000, 'budget_s': 45, 'chunk': 40, 'per_run_timeout': 300}
    return {'runs': 300000, 'budget_s': 540, 'chunk': 40, 'per_run_timeout': 600}


def _loader(hd):
    if hd not in _LOADERS:
        import singlecellmultiomics.barcodeFileParser.barcodeFileParser as bfp
        from singlecellmultiomics.modularDemultiplexer.demultiplexingStrategyLoader import DemultiplexingStrategyLoader
        sink = io.StringIO()
        with contextlib.redirect_stdout(sink):
            bp = bfp.BarcodeParser(hammingDistanceExpansion=hd, barcodeDirectory='../modularDemultiplexer/barcodes', lazyLoad=('10x_3M-february-2018',))
            ip = bfp.BarcodeParser(hammingDistanceExpansion=1, barcodeDirectory='../modularDemultiplexer/indices')
            dmx = DemultiplexingStrategyLoader(barcodeParser=bp, indexParser=ip, indexFileAlias='illumina_merged_ThruPlex48S_RP')
        _LOADERS[hd] = (dmx, bp, ip)
    return _LOADERS[hd]


def prepare():
    _loader(0)
    _loader(1)


def setup():
    prepare()


BASES = 'ACGT'


def _strategy_layout(st):
    """(barcode positions [(read, pos)...] in concatenation order, umi positions, paired?)"""
    if hasattr(st, 'barcode_slices') and st.barcode_slices is not None:
        bpos, upos = [], []
        for r, sl in enumerate(st.barcode_slices):
            for s in sl:
                bpos += [(r, i) for i in range(s.start or 0, s.stop)]
        for r, sl in enumerate(st.umi_slices):
            for s in sl:
                upos += [(r, i) for i in range(s.start or 0, s.stop)]
        return bpos, upos
    if hasattr(st, 'barcodeStart'):
        bpos = [(st.barcodeRead, st.barcodeStart + i) for i in range(st.barcodeLength)]
        upos = [(st.umiRead, st.umiStart + i) for i in range(getattr(st, 'umiLength', 0))]
        return bpos, upos
    return [], []


def _phred(w, n, tail):
    out = []
    for _ in range(n):
        x = w.random()
        if x < tail:
            out.append(chr(w.randint(75, 126)))
        elif x < tail + 0.05:
            out.append(chr(w.randint(33, 40)))
        else:
            out.append(chr(w.randint(45, 74)))
    return ''.join(out)


def generate(seed, tier):
    st = Streams(seed)
    w = st.workload
    hd = w.choice([0, 0, 1])
    dmx, bp, ip = _loader(hd)
    strategies = dmx.demultiplexingStrategies
    s = w.choice(strategies)
    cname = type(s).__name__
    single = 'SINGLE_END' in cname or (s.shortName == 'ILLU' and w.random() < 0.5)
    nmates = 1 if single else 2
    inner = getattr(s, 'chic_demux', None)       # CHICTV wraps another strategy and additionally needs the template-switching oligo in R1
    bpos, upos = _strategy_layout(inner or s)
    alias = getattr(inner or s, 'barcodeFileAlias', None)
    whitelist = sorted(bp.barcodes[alias]) if alias and alias in bp.barcodes else []
    idx_list = sorted(ip.barcodes['illumina_merged_ThruPlex48S_RP'])
    n = weighted(w, [(0, 1), (w.randint(1, 4), 4), (w.randint(5, 40), 6), (w.randint(41, 300), 2)])
    style = weighted(w, [('illumina', 6), ('intindex', 1), ('noindex', 1), ('short7', 1), ('3dec', 1), ('scmo', 1), ('mixed', 1)])
    tail = w.choice([0.0, 0.0, 0.02, 0.2])
    prefix_end = [0, 0]
    for (r, i) in bpos + upos:
        prefix_end[r] = max(prefix_end[r], i + 1)
    reads = []
    for i in range(n):
        cls = weighted(w, [('exact', 8), ('mm1', 2), ('mm2', 1), ('unknown', 3), ('trunc_before', 1), ('trunc_inside', 1),
                           ('trunc_after', 1), ('empty', 1), ('allN', 1), ('N_in_umi', 1)])
        lens = [w.randint(max(prefix_end[r], 1), max(prefix_end[r], 1) + 60) for r in range(nmates)]
        seqs = [[w.choice(BASES) for _ in range(lens[r])] for r in range(nmates)]
        if w.random() < 0.1:
            for r in range(nmates):
                for _ in range(w.randint(1, 5)):
                    if seqs[r]:
                        seqs[r][w.randrange(len(seqs[r]))] = 'N'
        if whitelist and bpos and cls in ('exact', 'mm1', 'mm2', 'N_in_umi', 'trunc_after'):
            bc = list(w.choice(whitelist))
            if len(bc) == len(bpos):
                k = {'mm1': 1, 'mm2': 2}.get(cls, 0)
                for j in w.sample(range(len(bc)), k):
                    bc[j] = w.choice([b for b in BASES + 'N' if b != bc[j]])
                for (r, p), b in zip(bpos, bc):
                    if r < nmates and p < len(seqs[r]):
                        seqs[r][p] = b
        if inner is not None and cls in ('exact', 'mm1', 'N_in_umi') and w.random() < 0.8 and len(seqs[0]) >= prefix_end[0] + 12:
            at = w.randint(prefix_end[0] + 2, len(seqs[0]) - 9)
            seqs[0][at:at + 9] = list('AGACTCTTT')
        if cls == 'N_in_umi' and upos:
            r, p = w.choice(upos)
            if r < nmates and p < len(seqs[r]):
                seqs[r][p] = 'N'
        if cls == 'allN':
            seqs = [['N'] * len(x) for x in seqs]
        if cls == 'empty':
            r = w.randrange(nmates)
            seqs[r] = []
        if cls == 'trunc_before' and bpos:
            r = bpos[0][0]
            if r < nmates:
                seqs[r] = seqs[r][:w.randint(0, max(0, min(p for rr, p in bpos if rr == r)))]
        if cls == 'trunc_inside' and bpos:
            r = bpos[0][0]
            if r < nmates:
                seqs[r] = seqs[r][:w.randint(1, max(1, prefix_end[r] - 1))]
        if cls == 'trunc_after':
            r = w.randrange(nmates)
            seqs[r] = seqs[r][:prefix_end[r] + w.choice([0, 0, 1, 2])]
        seqs = [''.join(x) for x in seqs]
        quals = [_phred(w, len(x), tail) for x in seqs]
        if tail and upos and w.random() < 0.3:   # deliberate: a high phred inside the UMI
            r, p = w.choice(upos)
            if r < nmates and p < len(quals[r]):
                quals[r] = quals[r][:p] + chr(w.randint(85, 126)) + quals[r][p + 1:]
        sty = style if style != 'mixed' else w.choice(['illumina', 'intindex', 'noindex', 'short7', '3dec', 'scmo'])
        ix = weighted(w, [(w.choice(idx_list), 12), ('GGGGGGGG', 1), ('NNNNNN', 1)])
        hs = []
        for r in range(nmates):
            x, y = 1000 + i, 2000 + i
            if sty == 'illumina':
                hs.append(f'@NS500414:628:H7YVNBGXC:1:11101:{x}:{y} {r + 1}:N:0:{ix}')
            elif sty == 'intindex':
                hs.append(f'@NS500414:628:H7YVNBGXC:1:11101:{x}:{y} {r + 1}:N:0:{w.randint(1, 9) if r == 0 else 1}')
            elif sty == 'noindex':
                hs.append(f'@NS500414:628:H7YVNBGXC:1:11101:{x}:{y} {r + 1}:N:0::')
            elif sty == 'short7':
                hs.append(f'@NS500414:628:H7YVNBGXC:1:11101:{x}:{y}')
            elif sty == '3dec':
                hs.append(f'@Cluster_s_1_{x}_{r + 1}')
            else:
                hs.append(f'@Is:NS500414;RN:628;Fc:H7YVNBGXC;La:1;Ti:11101;CX:{x};CY:{y};Fi:N;CN:0;aa:{ix};LY:OLD')
        reads.append({'id': i, 'cls': cls, 'h': hs, 's': seqs, 'q': quals})
    percell = w.random() < 0.3
    fs = st.faults
    params = {
        'strategy': s.shortName, 'hd': hd, 'paired': nmates == 2, 'library': w.choice(['LIB', 'my-lib_1', 'L']),
        'rejects': w.random() < 0.75,
        'maxReadPairs': weighted(w, [(None, 5), (1, 1), (max(1, n // 2), 1), (max(1, n), 1), (n + 5, 1)]),
        'percell': percell,
        'maxHandles': weighted(w, [(1, 1), (2, 1), (w.randint(3, 64), 3), (500, 1)]),
        'pruneEvery': weighted(w, [(1, 2), (w.randint(2, 30), 3), (10000, 2)]),
        'fd_budget': weighted(fs, [(None, 3), (fs.randint(1, 8), 4)]) if percell else None,
        'clock': weighted(st.schedule, [('monotone', 3), ('ties', 1), ('frozen', 1), ('backjump', 1)]),
    }
    cli = None
    if st.schedule.random() < (0.012 if tier == 'quick' else 0.04) and n > 0:
        # the same library through the real command line (demux.py __main__ via runpy in a forked child): argument wiring, lanes, -n across lanes
        nl = st.schedule.choice([1, 2, 2, 3])
        cuts = sorted(st.schedule.sample(range(1, n), min(nl - 1, max(0, n - 1)))) if n > 1 else []
        cli = {'lane_cuts': cuts, 'n': st.schedule.choice([None, None, 1, max(1, n // 2), n, n + 3]), 'norejects': st.schedule.random() < 0.3,
               'scsepf': st.schedule.random() < 0.3, 'fh': st.schedule.choice([1, 2, 5, 500]),
               # state carried between runs: a trial run (-n small) or a pre-created folder, then the real run into the same -o
               'prior': st.schedule.choice([None, None, 'trial-run', 'empty-folder']),
               # segments are laid out as lane/chunk files (a lane may be delivered in several chunk files per mate); the command line lists them in any order
               'chunks_in_first_lane': st.schedule.choice([1, 1, 2]), 'argv_order': st.schedule.random(),
               # the documented cluster workflow: one job per lane with -g <group>, then the glue step (cat *_TEMP_* > final)
               'chunked_workflow': st.schedule.random() < 0.25}
        if cli['chunked_workflow']:
            cli['n'] = None
            cli['prior'] = None
            cli['scsepf'] = False       # demux.py itself never chunks one-file-per-cell runs (submit_in_chunks = not args.scsepf ...)
        elif cli['prior'] is None and st.schedule.random() < 0.5:
            # a second library in the same invocation (the usual way to call the tool: a folder of FASTQ files); its name sorts before or after
            # the library under study; -n is a per-library cut-off
            cli['other_lib'] = {'name': st.schedule.choice(['LIBA', 'LIBZ']), 'k': st.schedule.randint(1, max(1, min(n, 12)))}
    return {'params': params, 'workload': reads, 'cli': cli}


_ID_TAG = re.compile(r'(?:^|;)CX:(-?\d+)')
_TI_TAG = re.compile(r'(?:^|;)Ti:(-?\d+)')


def _identity(header):
    """record identity from an output (or raw) header"""
    h = header[1:] if header.startswith('@') else header
    if h.startswith('Is:'):
        m = _ID_TAG.search(h)
        if m and m.group(1) != '-1':
            return int(m.group(1)) - 1000
        m = _TI_TAG.search(h)
        return int(m.group(1)) - 1000 if m else None
    if h.startswith('Cluster_s_'):
        return int(h.split('_')[3]) - 1000
    try:
        return int(h.split(' ')[0].split(';')[0].split(':')[5]) - 1000
    except Exception:
        return None


def _parse_fastq(text):
    lines = text.split('\n')
    if lines and lines[-1] == '':
        lines = lines[:-1]
    if len(lines) % 4:
        return None
    recs = []
    for i in range(0, len(lines), 4):
        h, s, p, q = lines[i:i + 4]
        if not h.startswith('@') or not p.startswith('+') or len(s) != len(q):
            return None
        recs.append((h, s, q))
    return recs


class _Sink:
    def __init__(self, real, name, log, events):
        self.real, self.name, self.log, self.events = real, name, log, events

    def write(self, records):
        ids = []
        for r in records:
            ids.append(_identity(str(r).split('\n', 1)[0]))
        self.events.append(('w', self.name, tuple(ids)))
        self.log.add('w', self.name, ids)
        return self.real.write(records)

    def close(self):
        return self.real.close()


def _run_once(case, with_rejects, log, d):
    import singlecellmultiomics.fastqProcessing.fastqIterator as fqi
    import singlecellmultiomics.pyutils.handlelimiter as hl
    from singlecellmultiomics.fastqProcessing.fastqHandle import FastqHandle
    p = case['params']
    reads = case['workload']
    dmx, bp, ip = _loader(p['hd'])
    strat = [s for s in dmx.demultiplexingStrategies if s.shortName == p['strategy']]
    nm = 2 if p['paired'] else 1
    paths = [os.path.join(d, f'in_R{r + 1}.fastq.gz') for r in range(nm)]
    for r in range(nm):
        with gzip.open(paths[r], 'wt', compresslevel=1) as f:
            for rd in reads:
                f.write(f"{rd['h'][r]}\n{rd['s'][r]}\n+\n{rd['q'][r]}\n")
    events = []
    RealIter = fqi.FastqIterator

    class RecIter(RealIter):
        def __next__(self):
            recs = RealIter.__next__(self)
            events.append(('r', self.readIndex - 1))
            return recs

    sub = 'on' if with_rejects else 'off'
    out_prefix = os.path.join(d, f'out_{sub}_')
    cell_prefix = f'/sim/out_{sub}_' if p['percell'] else out_prefix   # virtual path: scratch names never enter the log
    fs = None
    saved = None
    if p['percell']:
        fs = SimFS(log, budget=p['fd_budget'])
        saved = (hl.__dict__.get('gzip'), hl.__dict__.get('time'))
        hl.gzip = fs.gzip_module()
        hl.time = SimClock(p['clock'], jump_at=max(1, len(reads) // 2))
        real_gz_open = gzip.open

        def _gz_router(path, mode='rb', *a, **k):      # whatever way the writer reaches gzip.open, /sim/ paths end up in the SimFS
            if isinstance(path, str) and path.startswith('/sim/'):
                return fs._open(path, mode, gz=True, level=(a[0] if a else k.get('compresslevel', 9)))
            return real_gz_open(path, mode, *a, **k)
        gzip.open = _gz_router
    stdout = io.StringIO()
    logf = io.StringIO()
    result = None
    raised = None
    try:
        with contextlib.redirect_stdout(stdout):
            handle = FastqHandle(cell_prefix + 'demultiplexed', p['paired'], single_cell=p['percell'], maxHandles=p['maxHandles'])
            if p['percell']:
                handle.handles.pruneEvery = p['pruneEvery']
            rej = FastqHandle(out_prefix + 'rejects', p['paired']) if with_rejects else None
            tsink = _Sink(handle, 'demux', log, events)
            rsink = _Sink(rej, 'rejects', log, events) if rej is not None else None
            fqi.FastqIterator = RecIter
            try:
                result = dmx.demultiplex(paths, strategies=strat, targetFile=tsink, rejectHandle=rsink, log_handle=logf,
                                         library=p['library'], maxReadPairs=p['maxReadPairs'])
            except Exception as e:
                raised = e
            finally:
                fqi.FastqIterator = RealIter
            try:
                handle.close()
                if rej is not None:
                    rej.close()
            except Exception as e:
                raised = raised or e
    finally:
        if saved is not None:
            hl.gzip, hl.time = saved
            gzip.open = real_gz_open
    # collect outputs: name -> list of per-mate record lists
    outs = {'demux': {}, 'rejects': {}}
    corrupt = []

    def load(kind, key, mate, raw):
        try:
            text = gzip.decompress(raw).decode() if raw else ''
        except Exception as e:
            corrupt.append((kind, key, mate, 'gzip:' + type(e).__name__))
            return
        recs = _parse_fastq(text)
        if recs is None:
            corrupt.append((kind, key, mate, 'fastq-structure'))
            return
        outs[kind].setdefault(key, {})[mate] = recs

    if p['percell']:
        for path in sorted(fs.files):
            m = re.match(r'.*demultiplexed\.(.*)\.(R[12])\.fastq\.gz$', path)
            load('demux', m.group(1), m.group(2), fs.content(path))
        leak = fs.open_count
    else:
        leak = 0
        for r in range(nm):
            with open(out_prefix + f'demultiplexedR{r + 1}.fastq.gz', 'rb') as f:
                load('demux', 'joint', f'R{r + 1}', f.read())
    if with_rejects:
        for r in range(nm):
            with open(out_prefix + f'rejectsR{r + 1}.fastq.gz', 'rb') as f:
                load('rejects', 'joint', f'R{r + 1}', f.read())
    return {'result': result, 'raised': raised, 'events': events, 'outs': outs, 'corrupt': corrupt, 'stdout': stdout.getvalue(),
            'logf': logf.getvalue(), 'fs': fs, 'leak': leak}


def _exc_from_stdout(text):
    last = None
    for line in text.splitlines():
        if re.match(r'^[A-Za-z_.]+(Error|Exception)\b', line):
            last = line.split(':')[0]
    return last


def _check(case, run, with_rejects, viol, probe):
    p = case['params']
    reads = case['workload']
    n = len(reads)
    nm = 2 if p['paired'] else 1
    cutoff = n if p['maxReadPairs'] is None else min(n, max(p['maxReadPairs'], 1))
    if p['maxReadPairs'] is not None and p['maxReadPairs'] < n:
        probe('cutoff_hit')
    mode = ('percell' if p['percell'] else 'joint') + ('' if with_rejects else '/norejects')
    cause = _exc_from_stdout(run['stdout'])
    budget_fired = bool(run['fs'] and run['fs'].fired)

    def V(cls, sig, **detail):
        detail.update({'strategy': p['strategy'], 'mode': mode})
        viol.append({'property': PROPERTY, 'class': cls, 'signature': sig, 'detail': detail})

    if run['raised'] is not None:
        V('demultiplex-raised', type(run['raised']).__name__, error=repr(run['raised'])[:300])
        return None
    for c in run['corrupt']:
        V('corrupt-output', f'{c[0]}/{c[3]}', file=list(c))
    if run['leak']:
        V('handle-leak', 'open-after-close', open=run['leak'])
    processed, yields = run['result']
    if processed != cutoff:
        V('processed-count-wrong', 'returned-count', got=processed, want=cutoff, n=n, maxReadPairs=p['maxReadPairs'])
    # ---- while-running oracle over the event stream
    cur = None
    writes = {}
    for ev in run['events']:
        if ev[0] == 'r':
            cur = ev[1]
            writes[cur] = []
        else:
            writes.setdefault(cur, []).append(ev[1:])
    n_acc = n_rej = 0
    seam_ok = any(ev[0] == 'r' for ev in run['events']) or n == 0       # (no read events = the iterator seam was not effective: files oracle only)
    for i in range(min(cutoff, n) if seam_ok else 0):
        ws = writes.get(i, [])
        sinks = [w[0] for w in ws]
        if with_rejects and len(ws) != 1:
            if not ws:
                V('pair-lost', f'no-write/{cause}', read=i, read_class=reads[i]['cls'])
            else:
                V('pair-duplicated', 'both-sinks' if len(set(sinks)) > 1 else 'same-sink-twice', read=i, sinks=sinks)
            continue
        if not with_rejects and len(ws) > 1:
            V('pair-duplicated', 'same-sink-twice', read=i, sinks=sinks)
            continue
        for sname, ids in ws:
            if len(ids) != nm or any(x != i for x in ids):
                V('mate-desync', 'write-identity', read=i, ids=list(ids), sink=sname)
            if sname == 'demux':
                n_acc += 1
            else:
                n_rej += 1
    probe('strategy_runs/' + p['strategy'])
    if n_acc:
        probe('strategy_accepted_some/' + p['strategy'])
    if n_acc and n_rej:
        probe('accepted_and_rejected_in_one_run')
    # ---- files
    acc_ids, rej_ids = [], []
    corrupt_kinds = {c[0] for c in run['corrupt']}
    for kind, dst in (('demux', acc_ids), ('rejects', rej_ids)):
        if kind in corrupt_kinds:
            continue
        for key, mates in sorted(run['outs'][kind].items()):
            r1 = mates.get('R1', [])
            ids1 = [_identity(h) for h, _, _ in r1]
            if nm == 2:
                r2 = mates.get('R2', [])
                ids2 = [_identity(h) for h, _, _ in r2]
                if ids1 != ids2:
                    V('mate-desync', f'{kind}-files', file=key, n_r1=len(ids1), n_r2=len(ids2))
            if ids1 != sorted(ids1):
                V('order-changed', kind, file=key)
            dst.extend(ids1)
            if kind == 'rejects':
                for mi, mate in enumerate(['R1', 'R2'][:nm]):
                    for (h, s, q) in mates.get(mate, []):
                        ident = _identity(h)
                        if 'RR:' not in h:
                            V('reject-without-reason', 'no-RR', read=ident, header=h[:120])
                        if ident is None or not (0 <= ident < n):
                            V('corrupt-output', 'rejects/unknown-identity', header=h[:120])
                        elif (s, q) != (reads[ident]['s'][mi], reads[ident]['q'][mi]):
                            V('reject-content-changed', mate, read=ident)
    if not run['corrupt']:
        want = list(range(cutoff))
        both = sorted(set(acc_ids) & set(rej_ids))
        if both:
            V('pair-duplicated', 'both-sinks', reads=both[:5])
        got = sorted(acc_ids + rej_ids)
        if with_rejects and got != want and not both:
            lost = sorted(set(want) - set(got))
            dup = len(got) != len(set(got))
            if lost:
                if budget_fired and p['percell']:
                    sig = f'files/{cause}/fd-budget'
                else:
                    sig = f'files/{cause}'
                V('pair-lost', sig, reads=lost[:5], n_lost=len(lost), classes=sorted({reads[i]['cls'] for i in lost}))
            elif dup:
                V('pair-duplicated', 'files', n_got=len(got), n_want=len(want))
            else:
                V('pair-extra', 'files', n_got=len(got), n_want=len(want))
        y = yields.get(p['strategy'], 0)
        if y != len(acc_ids):
            V('counter-mismatch', f'yield/{cause}', strategyYield=y, demultiplexed_records=len(acc_ids))
        m = re.search(r'processed (\d+) read pairs', run['logf'])
        if not m or int(m.group(1)) != processed:
            V('counter-mismatch', 'log-processed', log=run['logf'][:200])
        m = re.search(r'^%s\t(\d+)$' % re.escape(p['strategy']), run['logf'], re.M)
        if (int(m.group(1)) if m else 0) != y:
            V('counter-mismatch', 'log-yield', log=run['logf'][:300])
    return acc_ids


def _cli_child(d, argv, wfd):
    import json
    import runpy
    import sys
    os.chdir(d)
    dn = os.open(os.devnull, os.O_WRONLY)
    os.dup2(dn, 1)
    os.dup2(dn, 2)
    sys.stdout = open(os.devnull, 'w')
    sys.stderr = open(os.devnull, 'w')
    sys.argv = argv
    res = {'exception': None}
    try:
        runpy.run_module('singlecellmultiomics.modularDemultiplexer.demux', run_name='__main__')
    except SystemExit as e:
        res['exception'] = f'SystemExit({e.code})' if e.code else None
    except BaseException as e:
        res['exception'] = f'{type(e).__name__}: {e}'[:300]
    os.write(wfd, json.dumps(res).encode())
    os._exit(0)


def _cli_layer(case, d, log, viol, probe):
    import json
    p = case['params']
    c = case['cli']
    reads = case['workload']
    n = len(reads)
    nm = 2 if p['paired'] else 1
    bounds = [0] + list(c['lane_cuts']) + [n]
    files = []
    lane_files = {}
    nseg = len(bounds) - 1
    k1 = min(c.get('chunks_in_first_lane', 1), nseg)
    for li in range(nseg):
        lane, chunk = (1, li + 1) if li < k1 else (li - k1 + 2, 1)
        for r in range(nm):
            path = os.path.join(d, f'LIBX_L00{lane}_R{r + 1}_00{chunk}.fastq.gz')
            with gzip.open(path, 'wt', compresslevel=1) as f:
                for rd in reads[bounds[li]:bounds[li + 1]]:
                    f.write(f"{rd['h'][r]}\n{rd['s'][r]}\n+\n{rd['q'][r]}\n")
            files.append(path)
            lane_files.setdefault(lane, []).append(path)
    ol = c.get('other_lib')
    if ol:
        for r in range(nm):
            path = os.path.join(d, f"{ol['name']}_L001_R{r + 1}_001.fastq.gz")
            with gzip.open(path, 'wt', compresslevel=1) as f:
                for rd in reads[:ol['k']]:
                    f.write(f"{rd['h'][r]}\n{rd['s'][r]}\n+\n{rd['q'][r]}\n")
            files.append(path)
        probe('cli_two_libraries_in_one_invocation')
    if c.get('argv_order') is not None:
        import random as _random
        _random.Random(c['argv_order']).shuffle(files)      # the tool sorts its inputs; any listing order must give the same result
        probe('cli_argv_shuffled')
    out = os.path.join(d, 'cli_out')
    argv = ['demux.py'] + files + ['-o', out, '--y', '-use', p['strategy'], '-hd', str(p['hd']), '-fh', str(c['fh'])]
    if nm == 1:
        argv.append('--se')
    if c['n'] is not None:
        argv += ['-n', str(c['n'])]
    if c['norejects']:
        argv.append('--norejects')
    if c['scsepf']:
        argv.append('--scsepf')
    def launch(av):
        rfd, wfd = os.pipe()
        pid = os.fork()
        if pid == 0:
            os.close(rfd)
            try:
                _cli_child(d, av, wfd)
            finally:
                os._exit(97)
        os.close(wfd)
        data = b''
        while True:
            b = os.read(rfd, 65536)
            if not b:
                break
            data += b
        os.close(rfd)
        os.waitpid(pid, 0)
        return json.loads(data.decode()) if data else {'exception': 'child died without a result'}

    if c.get('prior') == 'trial-run':
        # same output mode as the real run (a run with another layout legitimately leaves its own files behind)
        launch(['demux.py'] + files + ['-o', out, '--y', '-use', p['strategy'], '-hd', str(p['hd']), '-n', '1', '-fh', str(c['fh'])] + (['--se'] if nm == 1 else [])
               + (['--norejects'] if c['norejects'] else []) + (['--scsepf'] if c['scsepf'] else []))
        probe('cli_rerun_into_existing_output')
    elif c.get('prior') == 'empty-folder':
        os.makedirs(os.path.join(out, 'LIBX'), exist_ok=True)
        probe('cli_rerun_into_existing_output')
    if c.get('chunked_workflow'):
        # one job per lane (group ids 0,1,2.. as demux.py -sched assigns them), then the glue commands of demux.py re-done in Python
        res = {'exception': None}
        for gi, lane in enumerate(sorted(lane_files)):
            av = ['demux.py'] + lane_files[lane] + ['-o', out, '--y', '-use', p['strategy'], '-hd', str(p['hd']), '-fh', str(c['fh']), '-g', str(gi)]
            av += (['--se'] if nm == 1 else []) + (['--norejects'] if c['norejects'] else []) + (['--scsepf'] if c['scsepf'] else [])
            r_ = launch(av)
            if r_.get('exception'):
                res = r_
        lib_dir_ = os.path.join(out, 'LIBX')
        if os.path.isdir(lib_dir_):
            import glob as _glob
            kinds = ['demultiplexedR1.fastq.gz', 'demultiplexedR2.fastq.gz', 'demultiplexing.log'] + ([] if c['norejects'] else ['rejectsR1.fastq.gz', 'rejectsR2.fastq.gz'])
            for kind_ in kinds:
                parts = sorted(_glob.glob(os.path.join(lib_dir_, '*_TEMP_' + kind_)))       # the shell expands the glob in sorted order
                if not parts and kind_.endswith('R2.fastq.gz') and nm == 1:
                    continue
                with open(os.path.join(lib_dir_, kind_), 'wb') as o_:          # `cat parts > final` (truncates final first)
                    for pth in parts:
                        with open(pth, 'rb') as i_:
                            o_.write(i_.read())
                for pth in parts:
                    os.remove(pth)
        probe('cli_chunked_workflow')
    else:
        res = launch(argv)
    probe('cli_run')
    if len(bounds) > 2:
        probe('cli_multi_lane')
    ctx = {'strategy': p['strategy'], 'mode': 'cli', 'prior': c.get('prior'), 'argv': [a if not a.startswith(d) else os.path.basename(a) for a in argv[1:]]}

    def V(cls, sig, **detail):
        detail.update(ctx)
        viol.append({'property': PROPERTY, 'class': cls, 'signature': sig, 'detail': detail})

    log.add('cli', ctx['argv'], res.get('exception'))
    if res.get('exception'):
        V('demultiplex-raised', 'cli/' + res['exception'].split(':')[0], error=res['exception'])
        return
    if ol and not c['norejects']:
        # the other library is held to plain record accounting: pairs consumed (its own cut-off) = demultiplexed + rejected records
        od = os.path.join(out, ol['name'])
        want_o = ol['k'] if c['n'] is None else min(ol['k'], c['n'])
        got_o = 0
        for fn in (sorted(os.listdir(od)) if os.path.isdir(od) else []):
            if fn.endswith('R1.fastq.gz') and (fn.startswith('demultiplexed') or fn.startswith('rejects')):
                try:
                    with open(os.path.join(od, fn), 'rb') as f:
                        raw = f.read()
                    got_o += len(_parse_fastq(gzip.decompress(raw).decode() if raw else '') or [])
                except Exception:
                    got_o = -1
                    break
        log.add('cli-other-lib', ol['name'], got_o)
        if got_o != want_o:
            V('pair-lost' if 0 <= got_o < want_o else 'pair-extra', 'cli/other-library-in-same-invocation', library=ol['name'], n_written=got_o, n_expected=want_o)
    lib_dir = os.path.join(out, 'LIBX')
    cutoff = n if c['n'] is None else min(n, c['n'])
    if c['n'] is not None and c['n'] < n:
        probe('cli_cutoff_hit')
    acc, rej = [], []
    corrupt = False

    def load(path):
        nonlocal corrupt
        try:
            with open(path, 'rb') as f:
                raw = f.read()
            recs = _parse_fastq(gzip.decompress(raw).decode() if raw else '')
        except Exception as e:
            recs = None
        if recs is None:
            corrupt = True
            V('corrupt-output', 'cli/' + os.path.basename(path).split('.')[0][:20])
        return recs or []

    if not os.path.isdir(lib_dir):
        V('pair-lost', 'cli/no-output-directory', n=n)
        return
    names = sorted(os.listdir(lib_dir))
    for kind, dst in (('demultiplexed', acc), ('rejects', rej)):
        r1s = [x for x in names if x.startswith(kind) and x.endswith('R1.fastq.gz')]
        for f1 in r1s:
            a = load(os.path.join(lib_dir, f1))
            ids1 = [_identity(h) for h, _, _ in a]
            if nm == 2:
                f2 = f1[:-len('R1.fastq.gz')] + 'R2.fastq.gz'
                b = load(os.path.join(lib_dir, f2)) if f2 in names else []
                if ids1 != [_identity(h) for h, _, _ in b]:
                    V('mate-desync', f'cli/{kind}-files', file=f1, n_r1=len(a), n_r2=len(b))
            if ids1 != sorted(ids1):
                V('order-changed', 'cli/' + kind, file=f1)
            dst.extend(ids1)
    log.add('cli-out', len(acc), len(rej))
    if corrupt:
        return
    if set(acc) & set(rej):
        V('pair-duplicated', 'cli/both-sinks', reads=sorted(set(acc) & set(rej))[:5])
    got = sorted(acc + rej) if not c['norejects'] else None
    if got is not None and got != list(range(cutoff)):
        lost = sorted(set(range(cutoff)) - set(got))
        extra = sorted(set(got) - set(range(cutoff)))
        cls = 'pair-lost' if lost else ('pair-beyond-cutoff' if extra else 'pair-duplicated')
        V(cls, 'cli/files', lost=lost[:5], beyond_cutoff=extra[:5], n_got=len(got), cutoff=cutoff)
    if c['norejects'] and (len(acc) != len(set(acc)) or any(i >= cutoff for i in acc)):
        V('pair-beyond-cutoff' if any(i >= cutoff for i in acc) else 'pair-duplicated', 'cli/norejects', cutoff=cutoff)
    try:
        logt = open(os.path.join(lib_dir, 'demultiplexing.log')).read()
    except OSError:
        logt = ''
    # one "processed N read pairs" line per input file pair (per job in the chunked workflow): they must add up to what was consumed
    m = re.findall(r'^processed (\d+) read pairs', logt, re.M)
    if sum(int(x) for x in m) != cutoff:
        V('counter-mismatch', 'cli/log-processed', log_tail=logt[-200:], cutoff=cutoff, processed_lines=m[:6])
    ys = sum(int(x) for x in re.findall(r'^%s\t(\d+)$' % re.escape(p['strategy']), logt, re.M))
    if ys != len(acc):
        V('counter-mismatch', 'cli/log-yield', yields_in_log=ys, demultiplexed_records=len(acc))


def execute(case):
    log = EventLog(case.get('run_seed'))
    p = case['params']
    viol, probes = [], {}

    def probe(k, n=1):
        probes[k] = probes.get(k, 0) + n

    reads = case['workload']
    if p['percell']:
        probe('per_cell_output')
    if any(ord(c) >= 85 for r in reads for q in r['q'] for c in q):
        probe('high_phred_in_umi')
    if any('GGGGGGGG' in h for r in reads for h in r['h']):
        probe('unknown_index')
    faults = {}
    with scratch() as d:
        run = _run_once(case, p['rejects'], log, d)
        acc = _check(case, run, p['rejects'], viol, probe)
        if run['fs'] is not None:
            for k, c in run['fs'].fired.items():
                faults[k] = faults.get(k, 0) + c
                probe('fd_budget_fault_fired', c)
        if not p['rejects']:
            probe('no_reject_handle')
            # relational: the rejects-on run of the same input must give the same demultiplexed output
            log2 = EventLog()
            run2 = _run_once(case, True, log2, d)
            v2 = []
            acc2 = _check(case, run2, True, v2, probe)
            viol.extend(v2)
            if acc is not None and acc2 is not None and sorted(acc) != sorted(acc2) and not v2 and not viol:
                viol.append({'property': PROPERTY, 'class': 'rejects-off-differs', 'signature': 'demultiplexed-output',
                             'detail': {'strategy': p['strategy'], 'n_off': len(acc), 'n_on': len(acc2)}})
            log.add('relational', log2.digest())
        if case.get('cli'):
            _cli_layer(case, d, log, viol, probe)
    nontrivial = probes.get('accepted_and_rejected_in_one_run', 0) > 0
    return {'violations': viol, 'digest': log.digest(), 'probes': probes, 'faults': faults, 'steps': log.n,
            'nontrivial': nontrivial, 'sig': log.digest()}


def sample_view(case, out):
    return {'params': case['params'], 'reads(first 4 of %d)' % len(case['workload']): case['workload'][:4]}


def LIST_PATHS(case):
    return [('workload',)]


def _shrink(case):
    p = case['params']
    for k, v in (('percell', False), ('maxReadPairs', None), ('rejects', True), ('fd_budget', None), ('maxHandles', 500), ('pruneEvery', 10000), ('clock', 'monotone'), ('hd', 0)):
        if p[k] != v:
            yield {**case, 'params': {**p, k: v}}
    # shorten reads from the right
    rs = case['workload']
    if any(len(s) > 30 for r in rs for s in r['s']):
        yield {**case, 'workload': [{**r, 's': [s[:30] for s in r['s']], 'q': [q[:30] for q in r['q']]} for r in rs]}


SHRINKERS = (_shrink,)
