"""C05 - tagging conserves alignment records: every input primary record appears exactly once.

Space: BAM layouts (1..12 contigs either side of the 100 kb small-contig threshold in any header order, empty contigs,
unplaced / half-mapped / orphan reads, invalid fragments) x method {nla, chic, qflag} x {single process, --multiprocess}
x pool width 1..4 x seeded completion order x --no_rejects.
"""
import collections
import os

from ..rng import Streams, weighted
from ..log import EventLog
from ..scratch import scratch
from ..gen import tagwork as tw, library as lib
from .. import pipeline as pl
from .. import tagcommon as tc

NAME = 'tagconserve'
PROPERTY = 'C05'
LEVEL = 'exploration'
RULE = ('A case is one seeded input BAM (genome of 1..12 contigs with lengths in {200..3000} u {99000..101000} u {150000..400000} in any order, '
        'some empty; library of 0..90 fragments with labelled defects: R1 without motif, R1/R2 unmapped, orphan mates, unplaced pairs, qc-fail, '
        'single-end, secondary/supplementary copies, soft clips; demultiplexer-encoded or pre-tagged names) x method in {nla,chic,qflag} executed '
        'in single-process mode and with --multiprocess under a SimPool of width 1..4 with a seeded completion order, each with and without --no_rejects. '
        'evaluations = tagger lifetimes. Non-trivial: a --multiprocess lifetime with >=3 jobs whose delivery order differs from submission order, or a '
        'layout with >=2 small contigs and >=1 large contig; distinct = distinct (input, mode, schedule) digests among those.')
ASSUMPTIONS = [
    'secondary/supplementary alignments are dropped by the mate-pairing library and are outside the claim (generated only to check they do not disturb the rest)',
    'identity of a record = unique cluster coordinate of its read name (the tagger rewrites encoded names by design; that decoding is C04)',
    'mate number is compared only for fragments whose two mates are both present in the input',
    'SimPool runs task bodies atomically in-process with pickled arguments/results; module globals are shared between simulated workers; ~1.5% of the cases are also run through the real fork-based multiprocessing.Pool (probe real_pool_crosscheck) with the same oracle, as a fidelity check of the stub',
    'no samtools binary exists in the sandbox: the pysam branches of merge/re-header are the ones exercised',
    'invalid fragment (removed by --no_rejects) = R1 absent/unmapped, pre-set qc-fail, or (nla) R1 without CATG: generator label, cross-checked against the default run',
]
COMPONENTS = {'real': tc.TAGGER_REAL, 'stub': tc.TAGGER_STUB}
REQUIRED_PROBES = ['input_records_carry_foreign_RG', 'forked_worker_processes', 'input_header_declares_read_groups_subset', 'many_small_contigs_layout', 'index_stale', 'index_missing', 'contig_with_only_placed_unmapped_reads', 'multiprocess_lifetime', 'delivery_order_not_submission_order', 'small_group_and_large_contig', 'unplaced_reads', 'no_rejects_run', 'invalid_fragment_present', 'orphan_or_halfmapped', 'empty_contig']


def plan(tier):
    if tier == 'quick':
        return {'runs': 1600, 'budget_s': 50, 'chunk': 4, 'per_run_timeout': 600}
    return {'runs': 60000, 'budget_s': 540, 'chunk': 8, 'per_run_timeout': 900}


def setup():
    tc.setup_imports()


def generate(seed, tier):
    st = Streams(seed)
    w = st.workload
    method = weighted(w, [('nla', 5), ('chic', 4), ('qflag', 1)])
    genome = tw.genome(w)
    frags = tw.library(w, genome, method)
    if w.random() < 0.03:
        genome, frags = tw.many_small_contigs(w, method, n=w.choice([None, None, None, w.randint(205, 260)]))
    if method == 'qflag' and w.random() < 0.5:
        for f in frags:
            if f['defect'] in (None, 'r2unmapped', 'orphan_r1', 'qcfail'):
                f['defect'] = 'single'
    if len(genome) >= 2 and frags and w.random() < 0.3:
        # discordant pairs: read 2 aligned to another contig (both mates present, but never delivered by the same fetch)
        ok = [f for f in frags if f.get('defect') is None and not f.get('extra')]
        for f in w.sample(ok, min(len(ok), w.randint(1, 4))):
            c2 = w.choice([i for i in range(len(genome)) if i != f['ctg']])
            f['discordant'] = {'ctg': c2, 'pos': w.randint(0, max(0, genome[c2][1] - f['rl'] - 1))}
            f.pop('r2cig', None)
    force_nr = False
    if method != 'qflag' and w.random() < 0.25 and frags:
        # a job whose LAST task writes nothing: the last small contig (header order) holds only rejected fragments
        genome = genome + [[f'tail{len(genome)}', w.randint(300, 3000)]]
        ci = len(genome) - 1
        clen = genome[ci][1]
        for k in range(w.randint(1, 3)):
            o = dict(w.choice(frags))
            o.update({'n': 1000 + len(frags), 'ctg': ci, 'L': min(o['L'], clen // 3), 'extra': None, 'clip': 0,
                      'defect': w.choice(['qcfail', 'r1unmapped', 'nomotif'] if method == 'nla' else ['qcfail', 'r1unmapped'])})
            o['site'] = w.randint(o['L'] + 8, clen - o['L'] - 8)
            frags.append(o)
        if not any(g[1] < tw.SMALL and any(f['ctg'] == i for f in frags) for i, g in enumerate(genome[:-1])):
            genome[0][1] = min(genome[0][1], 99000) if all(f['site'] + f['L'] + 50 < 99000 for f in frags if f['ctg'] == 0) else genome[0][1]
        force_nr = True
    if w.random() < 0.15 and frags:
        # a contig whose only records are flagged unmapped but placed on it (idxstats: mapped 0, unmapped > 0)
        ci = w.randrange(len(genome))
        mine = [f for f in frags if f['ctg'] == ci]
        if not mine:
            o = dict(w.choice(frags))
            clen = genome[ci][1]
            o.update({'n': 1000 + len(frags), 'ctg': ci, 'L': min(o['L'], clen // 3), 'extra': None, 'clip': 0})
            o['site'] = w.randint(o['L'] + 8, clen - o['L'] - 8)
            frags.append(o)
            mine = [o]
        for f in mine:
            f['defect'] = 'placed_unmapped'
            f['extra'] = None
            f['clip'] = 0
    params = {'method': method, 'encoded': w.random() < 0.7, 'lib': w.choice(['LIB', 'my-lib_1']),
              # state of the input's index when the tagger starts: fresh, missing, or left over from an earlier version of the file (N seconds older)
              'index_state': weighted(w, [(None, 6), (['missing'], 1), (['stale', w.choice([1, 5, 30, 59, 61, 3600])], 2), (['stale-empty', w.choice([1, 30, 3600])], 1), (['no-unplaced-count'], 1)]),
              # read groups the input header already declares
              'header_rgs': weighted(w, [(None, 6), ('subset', 2), ('all', 1), ('other', 1)])}
    s = st.schedule
    modes = [{'mp': False, 'name': 'single'},
             {'mp': True, 'name': 'multi', 'width': s.randint(1, 4), 'schedule': {'policy': 'seeded'}, 'seed': seed,
              # simulated workers either share the interpreter (atomic task bodies) or are real forked processes with private module state
              'isolation': s.choice(['inproc', 'fork'])}]
    if (w.random() < 0.5 or force_nr) and method != 'qflag':   # qflag writes all reads by design (--no_rejects is overridden)
        modes += [dict(m, no_rejects=True, name=m['name'] + '/no_rejects') for m in modes]
    if w.random() < 0.15:
        for f in frags:
            f['foreign_rg'] = w.choice(['alignerRG', 'LIB'])       # the input records already carry an RG tag of another scheme
    if s.random() < 0.015:
        # stub fidelity: the same input through the real fork-based multiprocessing.Pool (its schedule is not controlled; the oracle is the same)
        modes.append({'mp': True, 'name': 'multi/realpool', 'width': s.randint(2, 4), 'real_pool': True})
    return {'params': params, 'genome': genome, 'workload': frags, 'modes': modes}


def _layout_probe(genome, inp):
    """does the contig layout (contigs with reads, in header order) contain >=2 small and >=1 large"""
    with_reads = tc.contigs_with_reads(inp)
    seq = [(c, l) for c, l in genome if with_reads.get(c)]
    small = sum(1 for c, l in seq if l < tw.SMALL)
    large = sum(1 for c, l in seq if l >= tw.SMALL)
    return small, large, seq


def execute(case):
    log = EventLog(case.get('run_seed'))
    p = case['params']
    viol, probes, sigs, traces = [], {}, [], []
    orders = []
    faults = {}
    steps = 0
    sim_time = 0.0

    def probe(k, n=1):
        probes[k] = probes.get(k, 0) + n

    def V(cls, sig, **detail):
        viol.append({'property': PROPERTY, 'class': cls, 'signature': sig, 'detail': detail})

    with scratch() as d:
        in_bam = tc.write_input(d, case)
        inp = pl.canonical_records(in_bam)
        P = [r for r in inp if not r['sec']]
        mates = collections.Counter(r['id'] for r in P)
        both = {i for i, c in mates.items() if c == 2}
        want = collections.Counter(tc.conservation_key(r, both) for r in P)
        small, large, seq = _layout_probe(case['genome'], P)
        if small >= 2 and large >= 1:
            probe('small_group_and_large_contig')
        if any(r['ref'] is None for r in P):
            probe('unplaced_reads')
        if any(f.get('defect') in ('orphan_r1', 'orphan_r2', 'r1unmapped', 'r2unmapped') for f in case['workload']):
            probe('orphan_or_halfmapped')
        if len(seq) < len(case['genome']):
            probe('empty_contig')
        if len(case['genome']) > 50:
            probe('many_small_contigs_layout')
        if p.get('index_state'):
            probe('index_' + p['index_state'][0].replace('-', '_'))
        if any(f.get('foreign_rg') for f in case['workload']):
            probe('input_records_carry_foreign_RG')
        if p.get('header_rgs'):
            probe('input_header_declares_read_groups_' + p['header_rgs'])
        if any(f.get('defect') == 'placed_unmapped' for f in case['workload']):
            probe('contig_with_only_placed_unmapped_reads')
        invalid_ids = {f['n'] for f in case['workload'] if lib.invalid_for(f, p['method'])}
        halfmapped_r2 = {f['n'] for f in case['workload'] if f.get('defect') == 'r2unmapped' or f.get('discordant')}
        if any(f.get('discordant') for f in case['workload']):
            probe('discordant_pair')
        if invalid_ids:
            probe('invalid_fragment_present')
        outs = {}
        for mi, mode in enumerate(case['modes']):
            name = mode['name']
            if p.get('index_state') and mi > 0:
                tc.write_input(d, case)        # every lifetime starts from the same durable state (the previous one repaired the index)
            if mode.get('real_pool'):
                # observational fidelity check: forking real workers from a process that already runs htslib helper threads can dead-lock;
                # that is not a property verdict and must not fail the check
                try:
                    o = tc.run_mode(d, case, mode, f'm{mi}', in_bam=in_bam, timeout=45)
                except RuntimeError:
                    probe('real_pool_crosscheck_timed_out')
                    log.add('mode', name, 'timeout')
                    traces.append([])
                    continue
            else:
                o = tc.run_mode(d, case, mode, f'm{mi}', in_bam=in_bam)
            outs[name] = o
            res = o['res']
            steps += res.get('sched_steps', 0)
            sim_time += res.get('sim_time', 0.0)
            traces.append(res.get('schedule_trace', []))
            order = (res.get('pool_orders') or [[]])[0] if res.get('pool_orders') else []
            if order:
                orders.append(f'{len(order)}:' + ','.join(map(str, order[:40])))
            njobs = len(res.get('jobs', []))
            if mode.get('real_pool'):
                probe('real_pool_crosscheck')
            if mode.get('isolation') == 'fork':
                probe('forked_worker_processes')
            if mode.get('mp'):
                probe('multiprocess_lifetime')
                if order != sorted(order):
                    probe('delivery_order_not_submission_order')
            if mode.get('no_rejects'):
                probe('no_rejects_run')
            log.add('mode', name, res.get('digest_events'), res.get('exception'), o['status'])
            nontrivial = bool(mode.get('mp') and njobs >= 3 and order != sorted(order)) or (small >= 2 and large >= 1)
            sigs.append((log.digest()[:16], nontrivial))
            ctx = {'mode': name, 'method': p['method'], 'layout': [[c, l] for c, l in seq][:12]}
            if not o['ok']:
                V('tagger-failed', f"{p['method']}/{'multi' if mode.get('mp') else 'single'}/{tc.failure_signature(o)}",
                  exception=res.get('exception'), status=o['status'], traceback=(res.get('traceback') or '')[-600:], **ctx)
                continue
            for pr in o['problems']:
                V('output-not-sorted-indexed', pr, **ctx)
            recs = o['records']
            if recs is None:
                continue
            log.add('out', name, len(recs))
            # per-job exactly-once ownership (observed before the merge)
            if mode.get('mp') and not mode.get('real_pool') and res.get('jobs'):     # (no job observations = the pool seam was not effective)
                probe('simpool_seam_effective')
                owner = collections.Counter()
                for j in res.get('jobs', []):
                    for (c, s, e, fs, fe) in j['regions']:
                        owner[c] += 1
                needed = set(c for c, l in seq) | ({'*'} if any(r['ref'] is None for r in P) else set())
                for c in sorted(needed):
                    if owner.get(c, 0) == 0:
                        V('contig-not-scheduled', 'unplaced-bin' if c == '*' else ('small-contig' if dict(case['genome'])[c] < tw.SMALL else 'large-contig'), contig=c, **ctx)
                    elif owner[c] > 1:
                        V('contig-scheduled-twice', 'unplaced-bin' if c == '*' else 'contig', contig=c, times=owner[c], **ctx)
            got_recs = [r for r in recs if not r['sec']]
            got = collections.Counter(tc.conservation_key(r, both) for r in got_recs)
            target = want
            if mode.get('no_rejects'):
                # the unmapped mate of a half-mapped pair is handed over by the mate-pairing library as a fragment of its own
                # (without R1): whether --no_rejects keeps it is not decided by the statement -> optional
                optional = collections.Counter(tc.conservation_key(r, both) for r in P if r['id'] in halfmapped_r2 and r['mate'] == 2)
                target = collections.Counter(tc.conservation_key(r, both) for r in P if r['id'] not in invalid_ids)
                for k, c in optional.items():
                    if got.get(k, 0) < target.get(k, 0):
                        target[k] = got.get(k, 0)
                target = +target
            missing, extra = tc.multiset_diff(target, got)
            if missing or extra:
                mids = sorted({k[0] for k in missing})
                eids = sorted({k[0] for k in extra})
                byid = {f['n']: f for f in case['workload']}
                if mids and not eids:
                    cls = 'record-lost'
                elif eids and not mids:
                    cls = 'record-duplicated' if all(target.get(k, 0) >= 1 for k in extra) else 'record-extra'
                else:
                    cls = 'record-changed'
                kinds = sorted({str(byid[i].get('defect')) for i in (mids + eids) if i in byid})
                where = 'unplaced' if kinds == ['unplaced'] else ('whole-contig' if cls == 'record-lost' and any(
                    all(r['id'] in set(mids) for r in P if r['ref'] == c) for c in {r['ref'] for r in P if r['id'] in set(mids) and r['ref']}) else 'records')
                V(cls, f"{'no_rejects' if mode.get('no_rejects') else 'default'}/{'multi' if mode.get('mp') else 'single'}/{where}",
                  n_missing=sum(missing.values()), n_extra=sum(extra.values()), missing_ids=mids[:6], extra_ids=eids[:6],
                  example=[list(map(str, k)) for k in list(missing)[:1] + list(extra)[:1]], **ctx)
            # read groups
            rgs = set(o.get('header_rgs') or [])
            for r in recs:
                rg = r['alltags'].get('RG')
                if rg is None:
                    V('record-without-read-group', 'no-RG', read=r['id'], **ctx)
                    break
                if rg not in rgs:
                    V('read-group-not-in-header', 'undeclared-RG', read=r['id'], rg=rg, header=sorted(rgs)[:5], **ctx)
                    break
        # relational: default output minus rejected fragments == --no_rejects output (same execution mode)
        byid2 = {f['n']: f for f in case['workload']}
        for base in ('single', 'multi'):
            a, b = outs.get(base), outs.get(base + '/no_rejects')
            if a and b and a['ok'] and b['ok'] and a.get('records') is not None and b.get('records') is not None and not viol:
                ka = collections.Counter(tc.conservation_key(r, both) for r in a['records'] if not r['sec'] and not ((r['flag'] & 0x200) and 'RR' in r['alltags']))
                kb = collections.Counter(tc.conservation_key(r, both) for r in b['records'] if not r['sec'])
                m, e = tc.multiset_diff(ka, kb)
                m = collections.Counter({k: c for k, c in m.items() if not (k[0] in halfmapped_r2)})
                if m or e:
                    V('no_rejects-differs-from-default-minus-rejected', base, only_default=sorted({k[0] for k in m})[:6], only_no_rejects=sorted({k[0] for k in e})[:6], kinds=sorted({str(byid2[i].get('defect')) for i in ({k[0] for k in m} | {k[0] for k in e}) if i in byid2}),
                      method=p['method'])
    return {'violations': viol, 'digest': log.digest(), 'probes': probes, 'faults': faults, 'evals': len(case['modes']), 'sigs': sigs,
            'steps': steps, 'sim_time': sim_time, 'nontrivial': any(s[1] for s in sigs), 'schedule_traces': traces, 'sets': {'delivery_orders': orders}}


def make_explicit(case, out):
    c = dict(case)
    c['modes'] = [dict(m, schedule={'policy': 'explicit', 'decisions': tr}) if (m.get('mp') and not m.get('real_pool')) else dict(m)
                  for m, tr in zip(case['modes'], out['schedule_traces'])]
    return c


def sample_view(case, out):
    return {'params': case['params'], 'genome': case['genome'], 'fragments(first 5 of %d)' % len(case['workload']): case['workload'][:5], 'modes': case['modes']}


def LIST_PATHS(case):
    return [('modes',), ('workload',)]


def _shrink(case):
    # drop empty contigs / unused contigs while keeping indices consistent is intricate: shrink lengths instead
    g = case['genome']
    used = {f['ctg'] for f in case['workload']}
    if len(g) > 1 and len(used) < len(g):
        keep = sorted(used) or [0]
        remap = {old: new for new, old in enumerate(keep)}
        yield {**case, 'genome': [g[i] for i in keep], 'workload': [{**f, 'ctg': remap[f['ctg']]} for f in case['workload']]}
    for i, m in enumerate(case['modes']):
        if m.get('mp') and (m.get('width') != 1 or (m.get('schedule') or {}).get('policy') != 'fifo'):
            ms = [dict(x) for x in case['modes']]
            ms[i]['width'] = 1
            ms[i]['schedule'] = {'policy': 'fifo'}
            yield {**case, 'modes': ms}
    if any(f.get('defect') or f.get('extra') or f.get('clip') for f in case['workload']):
        yield {**case, 'workload': [{**f, 'defect': None, 'extra': None, 'clip': 0} for f in case['workload']]}
    if case['params'].get('encoded') is False:
        yield {**case, 'params': {**case['params'], 'encoded': True}}


SHRINKERS = (_shrink,)
