"""C07 - molecule partition is independent of the buffer-ejection schedule.

Real: MoleculeIterator.__iter__ (ejection branch, pop arithmetic, final flush),
Molecule.can_be_yielded, NlaIIIFragment / NlaIIIMolecule.  Stub: none - the schedule
seam is the constructor argument the property itself quantifies over.

One driver run = one sampled sorted fragment sequence x EVERY check_eject_every in
{None, 0..n} x both pooling methods (schedules exhaustive per sampled input).
"""
import collections

from ..rng import Streams, weighted
from ..log import EventLog
from ..gen import library as lib

NAME = 'eject'
PROPERTY = 'C07'
LEVEL = 'exploration'
RULE = ('A case is one seeded coordinate-sorted NLA fragment sequence (n<=60 fragments, 1..4 cells, sites spaced by '
        '{3,30,cache/2,cache,3*cache}, 1..5 PCR copies per molecule with different far ends so that duplicates arrive after '
        'unrelated molecules became ejectable, 1..3 contigs, paired and single-end; (fragment length + read length) <= cache_size/2) '
        'crossed with EVERY check_eject_every in {None,0..n} and pooling_method in {0,1}; cache_size drawn from {200,400,1000,10000}; '
        'UMIs compared exactly. evaluations = schedule-runs. A schedule-run is non-trivial when the ejection branch popped at least '
        'one molecule before the final flush; distinct = distinct (input digest, schedule, pooling, emission order) signatures among those.')
ASSUMPTIONS = [
    'pairs are fed as (R1,R2) tuples in the order a coordinate-sorted BAM delivers them (sorted by the start of the later mate); the real MatePairIterator path is exercised by the pipeline engines',
    'precondition of the statement honoured by the generator: paired layouts keep longest fragment + read length <= cache_size/2 (a pair arrives at the start of its later mate and triggers the check at the fragment end), single-end layouts keep read length < cache_size/2 (a read arrives at its start and triggers the check at its end)',
    'umi_hamming_distance=0 (the statement requires cross-pooling equality only for exact UMI comparison)',
    'for the base Fragment/Molecule classes (fragments linked through a shared start or end, spans growing by chaining) there is no site-based truth and the two pooling methods compare differently (per fragment vs against the molecule span): schedule independence within a pooling method, exactly-once and no-early-emission are checked there; equality ACROSS the pooling methods is required for those layouts on which the two linkage rules (two small reference models: any-member vs union-span, first open molecule in arrival order) prescribe the same partition',
]
COMPONENTS = {
    'real': ['singlecellmultiomics.molecule.MoleculeIterator', 'Molecule.can_be_yielded/add_fragment', 'NlaIIIFragment', 'NlaIIIMolecule', 'pysam.AlignedSegment'],
    'stub': [],
}
ISOLATE = True      # every case runs in a forked child of the worker: no repository state travels between cases
REQUIRED_PROBES = ['crowded_buffer_layout', 'more_duplicates_than_the_cap', 'plain_cross_pooling_comparable', 'fragment_at_coordinate_0', 'same_coordinates_on_two_contigs', 'abandoned_pass_then_full_pass', 'single_end_long_reads', 'plain_chained_fragments', 'ejection_popped', 'non_prefix_pop_list', 'final_flush_nonempty', 'duplicate_arrives_after_ejectable_unrelated']
EXHAUSTIVE_NOTE = 'check_eject_every is enumerated exhaustively (None, 0..n) per sampled input and pooling method; inputs and cache sizes are sampled'


def plan(tier):
    if tier == 'quick':
        return {'runs': 1280, 'budget_s': 45, 'chunk': 8, 'per_run_timeout': 300}
    return {'runs': 40000, 'budget_s': 560, 'chunk': 16, 'per_run_timeout': 600}


def setup():
    import singlecellmultiomics.molecule  # noqa
    import singlecellmultiomics.fragment  # noqa


def _crowded(w, kind, ncell):
    """single-end layout with a CROWDED buffer: 8..14 molecules created one base apart, most of them long (open for a long time), a few short ones
    scattered between them (ejectable early, at buffer indices on both sides of 8), then one long read whose END lies beyond the short ones'
    ejection bound but inside the long ones' - the check it triggers must pop a non-prefix index set - and afterwards duplicates of some long
    molecules (reads ending on the same base).  Every read is shorter than cache_size/2."""
    cache = w.choice([400, 1000, 10000])
    fo, ro = lib._OFF[kind]
    top = cache // 2 - 1
    base = w.randint(cache, 2 * cache)
    frags = []

    def add(start, length, rev, cell, umi, mol):
        site = (start - fo) if not rev else (start + length - ro)
        frags.append({'n': len(frags), 'cell': cell, 'ctg': 0, 'site': site, 'rev': rev, 'umi': umi, 'L': length, 'rl': length,
                      'kind': kind, 'defect': 'single', 'clip': 0, 'mol': mol})
    K = w.randint(8, 14)
    short_idx = set(w.sample(range(K), w.randint(2, 4)))
    if K > 8 and w.random() < 0.7:
        short_idx = {8, w.randrange(8)} | set(w.sample(range(K), w.randint(0, 2)))
    umis = lib.umi_pool(w, K + 4)
    long_len = top - w.randint(5, 40)
    ends = {}
    for i in range(K):
        cell = w.randrange(ncell)
        if i in short_idx:
            add(base + i, w.randint(20, 30), w.random() < 0.5, cell, umis[i], i)
        else:
            ln = long_len - (i % 3)
            add(base + i, ln, True, cell, umis[i], i)
            ends[i] = (base + i + ln, cell, umis[i])
    t_len = top - w.randint(0, 5)
    t_start = (base + K + 30) + (top + 1) + 2 - t_len + w.randint(0, 10)
    add(t_start, t_len, False, w.randrange(ncell), umis[K], K)
    for i in w.sample(sorted(ends), min(len(ends), w.randint(1, 3))):
        e, cell, umi = ends[i]
        ln = w.randint(20, max(20, min(60, e - t_start - 2)))
        if e - ln > t_start:
            add(e - ln, ln, True, cell, umi, i)
    for j in range(w.randint(0, 3)):
        add(t_start + w.randint(1, top), w.randint(20, 40), w.random() < 0.5, w.randrange(ncell), umis[K + 1 + j], K + 1 + j)
    return cache, frags


def generate(seed, tier):
    st = Streams(seed)
    w = st.workload
    if w.random() < 0.12:
        kind = w.choice(['nla', 'plain'])
        cache, frags = _crowded(w, kind, w.choice([1, 2, 3]))
        return {'params': {'cache_size': cache, 'pooling': [0, 1], 'umi_hd': 0, 'kind': kind, 'layout': 'single-end-crowded', 'cap': None},
                'workload': frags, 'schedules': [None] + list(range(0, len(frags) + 1)),
                'reiterate': [[st.schedule.choice([None, 0, 1, 2, 5]), st.schedule.randint(0, 3)] for _ in range(2)]}
    cache = w.choice([200, 200, 400, 400, 1000, 10000])
    rl = w.choice([20, 30, 40]) if cache >= 200 else 20
    rl = min(rl, cache // 4)
    maxL = cache // 2 - rl
    ncontig = w.choice([1, 1, 2, 3])
    ncell = w.choice([1, 2, 2, 3, 4])
    n_target = weighted(w, [(w.randint(1, 6), 2), (w.randint(7, 25), 5), (w.randint(26, 60), 3)])
    frags = []
    mol = 0
    origin = w.random() < 0.25      # a cluster touching coordinate 0 of the contig
    for ctg in range(ncontig):
        pos = w.randint(cache, 2 * cache) if not (origin and ctg == 0) else -3
        while len(frags) < n_target * (ctg + 1) // ncontig:
            gap = w.choice([3, 30, 30, cache // 2, cache // 2 + 1, cache, 3 * cache, w.randint(1, cache)])
            pos = pos + gap if pos >= 0 else 0
            nsite_mols = w.choice([1, 1, 2, 3])
            umis = lib.umi_pool(w, nsite_mols)
            for m in range(nsite_mols):
                cell = w.randrange(ncell)
                rev = w.random() < 0.5 if pos > 0 else False      # at the origin the read-1 side sits on base 0
                copies = w.choice([1, 1, 2, 3, 5])
                single = w.random() < 0.1
                for c in range(copies):
                    L = weighted(w, [(w.randint(rl, max(rl, maxL)), 3), (maxL, 2), (rl, 1)])
                    L = max(rl, min(L, maxL))
                    frags.append({'n': len(frags), 'cell': cell, 'ctg': ctg, 'site': pos, 'rev': rev, 'umi': umis[m],
                                  'L': L, 'rl': rl, 'kind': 'nla', 'defect': 'single' if single else None, 'clip': 0, 'mol': mol})
                mol += 1
    frags = frags[:60]
    kind = 'nla'
    if w.random() < 0.35:
        # base Fragment/Molecule classes: fragments of one molecule are linked through a shared start OR a shared end, so a molecule's
        # span can grow by chaining (every fragment still obeys the precondition); no site-based truth exists for these
        kind = 'plain'
        out = []
        for f in frags:
            g = dict(f, kind='plain')
            prev = [x for x in out if x['mol'] == f['mol']]
            if prev and w.random() < 0.6:
                o = w.choice(prev)
                L = max(rl, min(maxL, w.randint(rl, max(rl, maxL))))
                far_o = o['site'] + o['L'] if not o['rev'] else o['site'] - o['L']
                if w.random() < 0.5:      # share the far end with o, own anchor
                    g['L'] = L
                    g['site'] = far_o - L if not o['rev'] else far_o + L
                else:                     # share the anchor with o, own far end
                    g['L'] = L
                    g['site'] = o['site']
            out.append(g)
        if w.random() < 0.4 and len(out) >= 2:
            # an ambiguous fragment: same start as one open molecule and same end as another (same cell, strand, UMI) - it must join the
            # same one under every schedule (first compatible molecule in buffer order)
            for _ in range(w.randint(1, 3)):
                o1 = w.choice(out)
                L2 = max(rl, min(maxL, w.randint(rl, max(rl, maxL))))
                shift = w.randint(1, max(1, maxL // 3))
                o2 = dict(o1, site=o1['site'] + shift if not o1['rev'] else o1['site'] - shift, L=L2, mol=20000 + len(out))
                far2 = o2['site'] + o2['L'] if not o2['rev'] else o2['site'] - o2['L']
                Lx = abs(far2 - o1['site'])
                if rl <= Lx <= maxL and (far2 - o1['site'] > 0) == (not o1['rev']):
                    out.append(o2)
                    out.append(dict(o1, L=Lx, mol=30000 + len(out)))
        if ncontig > 1 and w.random() < 0.5:
            # the same coordinates, cell and UMI on another contig: still a different molecule
            for g in list(out):
                if w.random() < 0.3:
                    out.append(dict(g, ctg=(g['ctg'] + 1) % ncontig, mol=10000 + g['mol']))
        frags = [dict(g, n=i) for i, g in enumerate(out) if min(v for v in lib.full_coords(g) if v is not None) >= 0][:60]
    layout = 'paired-short-reads'
    if w.random() < 0.3:
        # single-end long reads: the read IS the fragment; a single-end read arrives at its start and triggers the check at its end,
        # so here the statement's own precondition (fragment shorter than the cache radius cache_size/2) is the exact one
        layout = 'single-end-long-reads'
        top = cache // 2 - 1
        for f in frags:
            f['defect'] = 'single'
            f['L'] = f['rl'] = weighted(w, [(w.randint(20, top), 3), (top, 2), (w.randint(20, min(top, 60)), 1)])
        if kind == 'plain':      # rebuild the start/end sharing with the new lengths
            byn = {}
            for f in frags:
                prev = [x for x in byn.values() if x['mol'] == f['mol']]
                if prev and w.random() < 0.6:
                    o = w.choice(prev)
                    far_o = o['site'] + o['L'] if not o['rev'] else o['site'] - o['L']
                    if w.random() < 0.5:
                        f['site'] = far_o - f['L'] if not o['rev'] else far_o + f['L']
                    else:
                        f['site'] = o['site']
                byn[f['n']] = f
        frags = [dict(g, n=i) for i, g in enumerate(frags) if min(v for v in lib.full_coords(g) if v is not None) >= 0]
    # a cap on the fragments per molecule (a molecule_class argument of several tools): surplus duplicates are emitted alone while the full
    # molecule is buffered - which must not depend on when the buffer is inspected either
    cap = w.choice([None, None, None, 1, 2, 3])
    return {'params': {'cache_size': cache, 'pooling': [0, 1], 'umi_hd': 0, 'kind': kind, 'layout': layout, 'cap': cap},
            'workload': frags,
            'schedules': [None] + list(range(0, len(frags) + 1)),
            # histories on ONE iterator object: a pass abandoned after k molecules (consumer break / exception), then a complete pass
            'reiterate': [[st.schedule.choice([None, 0, 1, 2, 5]), st.schedule.randint(0, 3)] for _ in range(2)]}


def _run(header, frags_sorted, cache, pooling, sched, kind='nla', cap=None):
    from singlecellmultiomics.molecule import MoleculeIterator, NlaIIIMolecule, Molecule
    from singlecellmultiomics.fragment import NlaIIIFragment, Fragment
    mcls, fcls, fargs = NlaIIIMolecule, NlaIIIFragment, {'umi_hamming_distance': 0}
    if kind == 'plain':
        mcls, fcls, fargs = Molecule, Fragment, {'umi_hamming_distance': 0, 'assignment_radius': 0}
    consumed = [0]

    def source():
        for f in frags_sorted:
            consumed[0] += 1
            yield lib.build_pair(header, f)

    it = MoleculeIterator(source(), molecule_class=mcls, fragment_class=fcls,
                          molecule_class_args={'cache_size': cache} if not cap else {'cache_size': cache, 'max_associated_fragments': cap},
                          fragment_class_args=fargs,
                          pooling_method=pooling, check_eject_every=sched, perform_qflag=False)
    groups = []
    for m in it:
        names = tuple(sorted(int(fr[0].query_name[1:]) if fr[0] is not None else int(fr[1].query_name[1:]) for fr in m.fragments))
        groups.append((names, consumed[0]))
    return groups


def execute(case):
    import pysam
    log = EventLog(case.get('run_seed'))
    frags = case['workload']
    p = case['params']
    cache = p['cache_size']
    nctg = max([f['ctg'] for f in frags], default=0) + 1
    header = pysam.AlignmentHeader.from_dict({'HD': {'VN': '1.6', 'SO': 'coordinate'},
                                              'SQ': [{'SN': f'ctg{i}', 'LN': 10 ** 8} for i in range(nctg)]})
    fs = lib.sort_fragments(frags)
    arrival = {f['n']: i for i, f in enumerate(fs)}
    kind = p.get('kind', 'nla')
    truth = {frozenset(v) for v in lib.truth_classes(frags).values()} if (kind == 'nla' and not p.get('cap')) else None
    if p.get('cap'):
        probe_cap = collections.Counter((f['cell'], f['ctg'], f['site'], f['rev'], f['umi']) for f in frags)
    viol, probes, sigs = [], {}, []

    def probe(k, n=1):
        probes[k] = probes.get(k, 0) + n

    if p.get('cap') and any(v > p['cap'] for v in probe_cap.values()):
        probe('more_duplicates_than_the_cap')
    if kind == 'plain':
        probe('plain_chained_fragments')
        seen_xy = {}
        for f in frags:
            seen_xy.setdefault((f['cell'], f['site'], f['L'], f['rev'], f['umi']), set()).add(f['ctg'])
        if any(len(v) > 1 for v in seen_xy.values()):
            probe('same_coordinates_on_two_contigs')
    if p.get('layout') == 'single-end-long-reads':
        probe('single_end_long_reads')
    if p.get('layout') == 'single-end-crowded':
        probe('crowded_buffer_layout')
    if any(min(v for v in lib.full_coords(f) if v is not None) == 0 for f in frags):
        probe('fragment_at_coordinate_0')

    # workload probe: a duplicate arrives after an unrelated molecule downstream became ejectable
    by_mol = {}
    for f in fs:
        by_mol.setdefault((f['cell'], f['ctg'], f['site'], f['rev'], f['umi']), []).append(arrival[f['n']])
    if any(max(v) - min(v) > 1 for v in by_mol.values()):
        probe('duplicate_arrives_after_ejectable_unrelated')

    evals = 0
    refs = {}
    for pooling in p['pooling']:
        ref = None
        for sched in case['schedules']:
            if sched is not None and sched > len(frags):
                continue
            evals += 1
            try:
                groups = _run(header, fs, cache, pooling, sched, kind, p.get('cap'))
            except Exception as e:
                viol.append({'property': PROPERTY, 'class': 'iterator-raised', 'signature': type(e).__name__,
                             'detail': {'pooling': pooling, 'schedule': sched, 'error': repr(e)[:300]}})
                log.add('run', pooling, sched, 'raised', type(e).__name__)
                continue
            part = {frozenset(g) for g, _ in groups}
            log.add('run', pooling, sched, [list(g) for g, _ in groups], [c for _, c in groups])
            ejected_early = sum(1 for _, c in groups if c < len(fs))
            if ejected_early:
                probe('ejection_popped')
            if any(c == len(fs) for _, c in groups) and sched is not None:
                probe('final_flush_nonempty')
            sigs.append((f'{log.digest()[:12]}', ejected_early > 0))
            # exactly-once
            flat = [n for g, _ in groups for n in g]
            if sorted(flat) != sorted(f['n'] for f in frags):
                lost = sorted(set(f['n'] for f in frags) - set(flat))
                cls = 'fragment-lost' if lost else 'fragment-duplicated'
                viol.append({'property': PROPERTY, 'class': cls, 'signature': f'pooling{pooling}',
                             'detail': {'pooling': pooling, 'schedule': sched, 'lost': lost[:5], 'n_out': len(flat), 'n_in': len(frags)}})
                continue
            if sched is None:
                ref = part
                refs[pooling] = part
                if truth is not None and part != truth:
                    viol.append({'property': PROPERTY, 'class': 'partition-differs-from-truth', 'signature': f'pooling{pooling}/no-eject',
                                 'detail': {'pooling': pooling, 'schedule': None,
                                            'got_only': sorted(map(sorted, part - truth))[:4], 'truth_only': sorted(map(sorted, truth - part))[:4]}})
                continue
            base = ref if ref is not None else (truth or part)
            if part != base:
                split = any(any(g < b for b in base) for g in part - base)
                # early emission: a molecule was yielded while a later-arriving fragment of its reference group was pending
                early = None
                for g, c in groups:
                    for b in base:
                        if set(g) < b and any(arrival[n] >= c for n in b - set(g)):
                            early = {'emitted': list(g), 'after_consuming': c, 'still_to_come': sorted(n for n in b - set(g) if arrival[n] >= c)}
                            break
                    if early:
                        break
                viol.append({'property': PROPERTY, 'class': 'early-emission' if early else 'partition-differs-across-schedules',
                             'signature': f"pooling{pooling}/{'split' if split else 'merged'}",
                             'detail': {'pooling': pooling, 'schedule': sched, 'early': early,
                                        'got_only': sorted(map(sorted, part - base))[:4], 'ref_only': sorted(map(sorted, base - part))[:4]}})
    # ---- base classes: the two pooling methods compare differently (per member vs against the union span) and may legitimately differ on
    # bridging layouts; where the two linkage rules (reference models below) prescribe the SAME partition, the statement's cross-pooling clause applies
    if kind == 'plain' and 0 in refs and 1 in refs and not p.get('cap'):
        m0, m1 = _plain_models(header, fs)
        if m0 == m1:
            probe('plain_cross_pooling_comparable')
            if refs[0] != refs[1]:
                viol.append({'property': PROPERTY, 'class': 'pooling-methods-differ', 'signature': 'plain/no-eject',
                             'detail': {'schedule': None, 'pooling0_only': sorted(map(sorted, refs[0] - refs[1]))[:4], 'pooling1_only': sorted(map(sorted, refs[1] - refs[0]))[:4],
                                        'both_linkage_rules_prescribe': sorted(map(sorted, m0 - (refs[0] & refs[1])))[:4]}})
        else:
            probe('plain_linkage_rules_disagree')
    # ---- abandoned pass, then a complete pass on the same iterator object
    from singlecellmultiomics.molecule import MoleculeIterator, NlaIIIMolecule, Molecule
    from singlecellmultiomics.fragment import NlaIIIFragment, Fragment
    for (sched, k) in case.get('reiterate') or []:
        for pooling in p['pooling']:
            evals += 1
            mcls, fcls, fargs = (NlaIIIMolecule, NlaIIIFragment, {'umi_hamming_distance': 0}) if kind == 'nla' else (Molecule, Fragment, {'umi_hamming_distance': 0, 'assignment_radius': 0})
            pairs = [lib.build_pair(header, f) for f in fs]
            it = MoleculeIterator(pairs, molecule_class=mcls, fragment_class=fcls, molecule_class_args={'cache_size': cache}, fragment_class_args=fargs,
                                  pooling_method=pooling, check_eject_every=sched, perform_qflag=False)
            try:
                first = []
                for m in it:
                    first.append(m)
                    if len(first) > k:
                        break           # the consumer walks away
                second = [tuple(sorted(int((fr[0] if fr[0] is not None else fr[1]).query_name[1:]) for fr in m.fragments)) for m in it]
            except Exception as e:
                viol.append({'property': PROPERTY, 'class': 'iterator-raised', 'signature': 'reiterate/' + type(e).__name__,
                             'detail': {'pooling': pooling, 'schedule': sched, 'error': repr(e)[:300]}})
                continue
            probe('abandoned_pass_then_full_pass')
            flat = sorted(n for g in second for n in g)
            log.add('reiterate', pooling, sched, k, sorted(second))
            if flat != sorted(f['n'] for f in frags):
                viol.append({'property': PROPERTY, 'class': 'state-leaks-into-next-pass', 'signature': f'pooling{pooling}',
                             'detail': {'pooling': pooling, 'schedule': sched, 'abandoned_after': k + 1, 'n_in': len(frags), 'n_out': len(flat),
                                        'duplicated': sorted({n for n in flat if flat.count(n) > 1})[:5]}})
    # non-prefix pop list probe (recomputed from the model: an ejectable molecule behind a non-ejectable one in buffer order)
    probes['non_prefix_pop_list'] = probes.get('non_prefix_pop_list', 0) + _non_prefix_possible(fs, cache)
    return {'violations': viol, 'digest': log.digest(), 'probes': probes, 'faults': {}, 'evals': evals, 'sigs': sigs,
            'steps': log.n, 'nontrivial': any(s[1] for s in sigs),
            'extra': {'schedule_runs': evals}}


def _plain_models(header, fs):
    """partitions prescribed for the base Fragment/Molecule classes (exact UMIs, radius 0, arrival order, nothing ejected) by
    rule 0: join the first open molecule having ANY member with equal (cell, strand, contig, UMI) and equal start or equal end;
    rule 1: join the first open molecule whose UNION SPAN has equal start or equal end (same cell, strand, contig, UMI).
    Attributes are read from real Fragment objects so that coordinates mean what the library means by them."""
    from singlecellmultiomics.fragment import Fragment
    items = []
    for f in fs:
        fr = Fragment([r for r in lib.build_pair(header, f)], umi_hamming_distance=0, assignment_radius=0)
        items.append((f['n'], fr.sample, fr.strand, fr.span, fr.umi, fr.has_valid_span()))

    def link(a_span, b_span):
        return a_span[0] == b_span[0] and min(abs(a_span[1] - b_span[1]), abs(a_span[2] - b_span[2])) <= 0

    out = []
    for rule in (0, 1):
        mols = []       # {'members': [...], 'key': (sample, strand, umi), 'span': [c, s, e]}
        for n, sample, strand, span, umi, valid in items:
            placed = False
            for m in mols:
                if not valid or m['key'] != (sample, strand, umi):
                    continue
                if rule == 0:
                    hit = any(v and link(sp, span) for (_, sp, v) in m['members'])
                else:
                    hit = m['valid'] and link(tuple(m['span']), span)
                if hit:
                    m['members'].append((n, span, valid))
                    m['span'][1], m['span'][2] = min(m['span'][1], span[1]), max(m['span'][2], span[2])
                    placed = True
                    break
            if not placed:
                mols.append({'members': [(n, span, valid)], 'key': (sample, strand, umi), 'span': list(span), 'valid': valid})
        out.append({frozenset(x[0] for x in m['members']) for m in mols})
    return out


def _non_prefix_possible(fs, cache):
    """model-side reach probe: at some arrival, buffer order (creation order) has a molecule that can be yielded
    *behind* one that cannot (so a correct implementation must pop a non-prefix index set)"""
    buf = []   # [key, start, end]
    hits = 0
    for f in fs:
        r1s, r1e, r2s, r2e = lib.mate_coords(f)
        xs = [x for x in (r1s, r1e, r2s, r2e) if x is not None]
        s, e = min(xs), max(xs)
        key = (f['cell'], f['ctg'], f['site'], f['rev'], f['umi'])
        for b in buf:
            if b[0] == key:
                b[1], b[2] = min(b[1], s), max(b[2], e)
                break
        else:
            buf.append([key, s, e])
        flags = [(b[0][1] != f['ctg']) or e > b[2] + cache * 0.5 or e < b[1] - cache * 0.5 for b in buf]
        if any(flags[i] and not all(flags[:i]) for i in range(len(flags))):
            hits += 1
    return hits


def sample_view(case, out):
    return {'params': case['params'], 'fragments(first 10 of %d)' % len(case['workload']): case['workload'][:10],
            'schedules': 'None,0..%d' % len(case['workload'])}


def LIST_PATHS(case):
    return [('params', 'pooling'), ('workload',), ('schedules',), ('reiterate',)]


def _shrink(case):
    # move sites closer to the origin / shorten fragments while keeping order
    frs = case['workload']
    if not frs:
        return
    m = min(f['site'] for f in frs)
    base = case['params']['cache_size']
    if m > 2 * base:
        yield {**case, 'workload': [{**f, 'site': f['site'] - (m - base)} for f in frs]}
    if any(f.get('defect') == 'single' for f in frs):
        yield {**case, 'workload': [{**f, 'defect': None} for f in frs]}


SHRINKERS = (_shrink,)
