"""C06 - molecule assignment equals the ground-truth duplicate structure; exactly one primary per molecule; re-tagging is idempotent.

Two layers on one seeded library with known truth:
  api    MoleculeIterator + fragment/molecule classes on (R1,R2) tuples: partition vs truth for Hamming 0/1/2, radius 0 / >0,
         NLA / CHIC / plain fragments, max_associated_fragments cap; write_tags() on input that carries stale duplicate bits / RC tags
  chain  histories of 1..3 tagger lifetimes (tag, tag o tag, tag o tag o tag): the tagged BAM of one lifetime is the durable state the
         next one starts from, optionally switching single <-> --multiprocess between lifetimes and starting from pre-flagged input
"""
import collections
import os

from ..rng import Streams, weighted
from ..log import EventLog
from ..scratch import scratch
from ..gen import tagwork as tw, library as lib
from .. import pipeline as pl
from .. import tagcommon as tc

NAME = 'molecules'
PROPERTY = 'C06'
LEVEL = 'exploration'
RULE = ('A case is one seeded library with known truth (1..8 cells, sites on both strands, 1..6 UMIs per site incl. UMIs at Hamming distance 1/2 and with N, '
        '1..5 PCR copies with different far ends, soft clips, invalid fragments; optionally stale duplicate bits and RC/af/TF tags on the input) run through '
        '(api) the real MoleculeIterator for each of umi_hamming_distance 0/1/2 x radius 0/>0 x pooling 0/1 x max_associated_fragments cap, and (chain) a history of '
        '1..3 tagger lifetimes feeding each output back as input, switching single/--multiprocess between lifetimes. Oracle: soundness of every molecule '
        '(same cell/strand, sites chained within the radius, UMI graph connected at <=k), exactness for k=0 and radius 0 (partition = truth classes, cap-aware), '
        'exactly one non-duplicate fragment per molecule with RC=0, RC values 0..n-1, af=n, TF=n+overflow, overflow pseudo-molecules of one fragment; '
        'partition identical across lifetimes. evaluations = iterator runs + lifetimes. Non-trivial: an api run with >=1 molecule of >=2 fragments on pre-flagged '
        'input, or a chain of >=2 lifetimes; distinct = distinct event-log digests among those.')
ASSUMPTIONS = [
    'which fragment holds rank 0, the representative UMI and the molecule identifiers are not compared',
    'over-splitting for Hamming distance > 0 is not flagged (the statement only requires linkage)',
    'plain (qflag-style) fragments have no cut site: only cell/strand/UMI linkage is checked for them',
    'BAM-level grouping uses the per-run molecule identifier (mi after a single-process run, (contig, ix) after a contig-per-process run)',
]
COMPONENTS = {'real': ['MoleculeIterator', 'Fragment / NlaIIIFragment / CHICFragment (__eq__, umi_eq, match_hash)', 'Molecule / NlaIIIMolecule / CHICMolecule (add_fragment, write_tags)'] + tc.TAGGER_REAL,
              'stub': tc.TAGGER_STUB}
ISOLATE = True      # every case runs in a forked child of the worker: no repository state travels between cases
REQUIRED_PROBES = ['api_run_with_ejection', 'cli_hamming0_with_near_umis', 'chain_with_separated_umis', 'api_run', 'preflagged_input', 'molecule_with_duplicates', 'overflow_molecule', 'umi_distance1_pair_present', 'chain_of_2plus_lifetimes', 'mode_switch_between_lifetimes', 'radius_gt0']


def plan(tier):
    if tier == 'quick':
        return {'runs': 2000, 'budget_s': 50, 'chunk': 4, 'per_run_timeout': 900}
    return {'runs': 80000, 'budget_s': 540, 'chunk': 8, 'per_run_timeout': 1800}


def setup():
    tc.setup_imports()
    import singlecellmultiomics.molecule  # noqa
    import singlecellmultiomics.fragment  # noqa


def generate(seed, tier):
    st = Streams(seed)
    w = st.workload
    method = weighted(w, [('nla', 5), ('chic', 4), ('qflag', 1)])
    genome = [[f'ctg{i}', w.randint(600, 9000)] for i in range(w.choice([1, 1, 2, 3]))]
    frags = tw.library(w, genome, method, n_target=w.randint(3, 60), dense=w.random() < 0.5, defects=w.random() < 0.6)
    if method in ('nla', 'chic') and frags and w.random() < 0.35:
        # long-insert pairs (legal, unusual): a molecule of its own - own site, one copy - whose read 2 lies far downstream, beyond the cache radius
        # used by the ejecting api runs (1000): it completes while later molecules are still collecting copies
        for _ in range(w.randint(1, 3)):
            t = dict(w.choice(frags))
            clen = genome[t['ctg']][1]
            if clen < 900:
                continue
            for _try in range(20):
                L = w.randint(520, min(2400, clen - 200))
                rev = w.random() < 0.5
                site = w.randint(50, clen - L - 60) if not rev else w.randint(L + 60, clen - 50)
                if all(abs(o['site'] - site) > 60 for o in frags if o['ctg'] == t['ctg']):
                    t.update({'n': 1000 + len(frags) + 500, 'site': site, 'L': L, 'rev': rev, 'umi': lib.umi_pool(w, 1, len(t['umi']))[0], 'defect': None, 'clip': 0,
                              'mol': 50000 + len(frags), 'extra': None, 'long_insert': True})
                    t.pop('dup', None)
                    g = dict(t)
                    if all(v is None or 0 <= v <= clen for v in lib.full_coords(g)):
                        frags.append(g)
                    break
    if method == 'chic' and frags and w.random() < 0.3:
        # MNase cuts in front of the first bases of a contig: forward fragments whose read 1 starts on base 0, 1 and 2 (cut sites -2, -1, 0), same cell
        # and UMI - three different molecules
        t = dict(w.choice(frags))
        umi = lib.umi_pool(w, 1, len(t['umi']))[0]
        for j, site in enumerate(w.sample([-2, -1, 0], w.randint(2, 3))):
            g = dict(t, n=1000 + len(frags) + 700 + j, site=site, rev=False, umi=umi, defect=None, clip=0, extra=None, mol=60000 + len(frags) + j, L=w.randint(t['rl'], max(t['rl'], min(200, genome[t['ctg']][1] // 3))))
            g.pop('dup', None)
            g.pop('r2cig', None)
            frags.append(g)
    preflag = w.random() < 0.5
    if preflag:
        for f in frags:
            if w.random() < 0.5:
                f['dup'] = {'bit': w.random() < 0.8, 'RC': w.randint(0, 4)}
    api = []
    for k in (0, 1, 2):
        api.append({'k': k, 'radius': 0, 'pooling': w.choice([0, 1]), 'cap': None})
    api.append({'k': w.choice([0, 1]), 'radius': w.choice([1, 5, 50]) if method == 'chic' else 0, 'pooling': 1, 'cap': None})
    api.append({'k': 0, 'radius': 0, 'pooling': w.choice([0, 1]), 'cap': w.choice([1, 2, 3])})
    # the buffer actually ejecting (default cadence is 10 000 fragments): small cadence, cache radius well above fragment + read length (<= 340)
    api.append({'k': 0, 'radius': w.choice([0, 2, 3]) if method == 'chic' else 0, 'pooling': 1, 'cap': None, 'eject': [w.choice([0, 1, 3, 7]), 1000]})
    api.append({'k': 0, 'radius': 0, 'pooling': w.choice([0, 1]), 'cap': None, 'eject': [w.choice([0, 2, 5]), 1000]})
    api.append({'k': 0, 'radius': 0, 'pooling': w.choice([0, 1]), 'cap': None, 'reiterate': True})
    # a capped run with the buffer actually ejecting: a full molecule must stay buffered as long as its class can still receive copies
    api.append({'k': 0, 'radius': 0, 'pooling': w.choice([0, 1]), 'cap': w.choice([1, 2, 3]), 'eject': [w.choice([0, 1, 3]), 1000]})
    s = st.schedule
    nlife = weighted(s, [(1, 2), (2, 4), (3, 3)])
    chain = []
    for i in range(nlife):
        mp = s.random() < 0.5
        chain.append({'mp': mp, 'name': f"L{i}{'m' if mp else 's'}", 'width': s.randint(1, 4), 'schedule': {'policy': 'seeded'}, 'seed': f'{seed}/L{i}', 'isolation': s.choice(['inproc', 'fork'])})
    if method == 'qflag':
        chain = []      # qflag does no molecule assignment (every fragment is its own molecule): api layer only
    params = {'method': method, 'encoded': w.random() < 0.6, 'lib': 'LIB', 'cap_cli': w.choice([None, None, 2]), 'cli_hd': w.choice([None, None, 0])}
    return {'params': params, 'genome': genome, 'workload': frags, 'api': api, 'chain': chain}


def _hd(a, b):
    if len(a) != len(b):
        return 99
    return sum(1 for x, y in zip(a, b) if x != y)


def _connected(items, linked):
    items = list(items)
    if not items:
        return True
    seen = {0}
    todo = [0]
    while todo:
        i = todo.pop()
        for j in range(len(items)):
            if j not in seen and linked(items[i], items[j]):
                seen.add(j)
                todo.append(j)
    return len(seen) == len(items)


def _classes_for(method):
    import singlecellmultiomics.molecule as M
    import singlecellmultiomics.fragment as F
    if method == 'nla':
        return M.NlaIIIMolecule, F.NlaIIIFragment
    if method == 'chic':
        return M.CHICMolecule, F.CHICFragment
    return M.Molecule, F.Fragment


def _check_molecule_tags(groups, V, ctx):
    """groups: list of lists of dict(id, dup(bool), RC, af, TF, overflow_reason)"""
    for g in groups:
        n = len(g)
        clear = [x for x in g if not x['dup']]
        rcs = sorted(x['RC'] for x in g if x['RC'] is not None)
        if len(clear) != 1:
            V('not-exactly-one-primary', f"{ctx['layer']}/{'none' if not clear else 'several'}-nonduplicate/{'preflagged' if ctx.get('preflag') else 'clean'}-input",
              fragments=[x['id'] for x in g][:6], duplicate_bits=[x['dup'] for x in g][:6], **ctx)
            continue
        if rcs != list(range(n)):
            V('rank-tags-wrong', f"{ctx['layer']}/RC", fragments=[x['id'] for x in g][:6], RC=[x['RC'] for x in g][:6], **ctx)
        elif clear[0]['RC'] != 0:
            V('rank-tags-wrong', f"{ctx['layer']}/primary-not-rank0", fragments=[x['id'] for x in g][:6], **ctx)
        if any(x['af'] != n for x in g):
            V('count-tags-wrong', f"{ctx['layer']}/af", fragments=[x['id'] for x in g][:6], af=[x['af'] for x in g][:6], n=n, **ctx)
        tfs = {x['TF'] for x in g}
        if len(tfs) != 1 or list(tfs)[0] is None or list(tfs)[0] < n:
            V('count-tags-wrong', f"{ctx['layer']}/TF", fragments=[x['id'] for x in g][:6], TF=sorted(map(str, tfs)), n=n, **ctx)


def _api_layer(case, log, V, probe):
    import pysam
    from singlecellmultiomics.molecule import MoleculeIterator
    p = case['params']
    method = p['method']
    frags = [f for f in case['workload'] if f.get('defect') in (None, 'single', 'nomotif')]
    if not frags:
        return 0
    mol_cls, frag_cls = _classes_for(method)
    header = pysam.AlignmentHeader.from_dict({'HD': {'VN': '1.6', 'SO': 'coordinate'}, 'SQ': [{'SN': c, 'LN': l} for c, l in case['genome']]})
    fs = lib.sort_fragments(frags)
    byid = {f['n']: f for f in frags}
    preflag = any(f.get('dup') for f in frags)
    if preflag:
        probe('preflagged_input')
    umis = {}
    for f in frags:
        umis.setdefault((f['cell'], f['ctg'], f['site'], f['rev']), set()).add(f['umi'])
    if any(_hd(a, b) == 1 for s in umis.values() for a in s for b in s):
        probe('umi_distance1_pair_present')
    n_eval = 0
    for cfg in case['api']:
        n_eval += 1
        probe('api_run')
        k, radius, cap = cfg['k'], cfg['radius'], cfg['cap']
        if radius:
            probe('radius_gt0')
        fargs = {'umi_hamming_distance': k}
        if method == 'chic':
            fargs['assignment_radius'] = radius
        margs = {}
        if cap:
            margs['max_associated_fragments'] = cap
        extra_it = {}
        if cfg.get('eject'):
            extra_it['check_eject_every'] = cfg['eject'][0]
            margs['cache_size'] = cfg['eject'][1]
            probe('api_run_with_ejection')

        def source():
            for f in fs:
                r1, r2 = lib.build_pair(header, f)
                if f.get('dup'):
                    for r in (r1, r2):
                        if r is not None:
                            r.is_duplicate = bool(f['dup'].get('bit'))
                            r.set_tag('RC', f['dup'].get('RC', 3))
                            r.set_tag('af', 9)
                yield (r1, r2)
        ctx = {'layer': 'api', 'method': method, 'k': k, 'radius': radius, 'cap': cap, 'pooling': cfg['pooling'], 'preflag': preflag, 'eject': cfg.get('eject'), 'reiterate': cfg.get('reiterate')}
        try:
            src = source()
            if cfg.get('reiterate'):
                src = list(src)       # one iterator object, a pass abandoned after two molecules, then the pass that counts
                probe('api_abandoned_pass_then_full_pass')
            it = MoleculeIterator(src, molecule_class=mol_cls, fragment_class=frag_cls, fragment_class_args=fargs, molecule_class_args=margs,
                                  pooling_method=cfg['pooling'], yield_invalid=True, yield_overflow=True, perform_qflag=False, **extra_it)
            if cfg.get('reiterate'):
                for ii, _m in enumerate(it):
                    if ii >= 1:
                        break
            mols = []
            for m in it:
                m.write_tags()
                g = []
                for fr in m.fragments:
                    rd = fr[0] if fr[0] is not None else fr[1]
                    g.append({'id': int(rd.query_name[1:]), 'dup': bool(rd.is_duplicate), 'RC': rd.get_tag('RC') if rd.has_tag('RC') else None,
                              'af': rd.get_tag('af') if rd.has_tag('af') else None, 'TF': rd.get_tag('TF') if rd.has_tag('TF') else None,
                              'both_dup_equal': all(r.is_duplicate == rd.is_duplicate for r in fr if r is not None),
                              'overflow': bool(rd.has_tag('RR') and 'overflow' in str(rd.get_tag('RR')))})
                mols.append(g)
        except Exception as e:
            V('iterator-raised', f'api/{type(e).__name__}', error=repr(e)[:300], **ctx)
            continue
        log.add('api', cfg, sorted(sorted(x['id'] for x in g) for g in mols))
        if any(len(g) >= 2 for g in mols):
            probe('molecule_with_duplicates')
        # every fragment exactly once
        flat = sorted(x['id'] for g in mols for x in g)
        if flat != sorted(byid):
            V('fragment-lost-or-duplicated', 'api', n_in=len(byid), n_out=len(flat), **ctx)
            continue
        _check_molecule_tags(mols, V, ctx)
        for g in mols:
            if any(not x['both_dup_equal'] for x in g):
                V('mates-disagree-on-duplicate-bit', 'api', fragments=[x['id'] for x in g][:6], **ctx)
        # soundness
        for g in mols:
            fr = [byid[x['id']] for x in g]
            if len(fr) < 2:
                continue
            if len({f['cell'] for f in fr}) > 1 or len({bool(f['rev']) for f in fr}) > 1 or len({f['ctg'] for f in fr}) > 1:
                V('unsound-molecule', 'api/mixed-cell-strand-or-contig', fragments=[f['n'] for f in fr][:6], **ctx)
                continue
            if method != 'qflag' and not _connected(sorted({f['site'] for f in fr}), lambda a, b: abs(a - b) <= radius):
                V('unsound-molecule', 'api/sites-beyond-radius', fragments=[f['n'] for f in fr][:6], sites=sorted({f['site'] for f in fr}), **ctx)
            if not _connected(sorted({f['umi'] for f in fr}), lambda a, b: _hd(a, b) <= k):
                V('unsound-molecule', 'api/umis-not-linked', fragments=[f['n'] for f in fr][:6], umis=sorted({f['umi'] for f in fr}), **ctx)
        # exactness
        exact_ok = (k == 0 and radius == 0 and method != 'qflag')
        truth_r = None
        if k == 0 and radius > 0 and method == 'chic':
            # with an assignment radius the truth classes are the groups of equal (cell, contig, strand, UMI) whose sites are all within the radius
            # of each other; the partition is pinned down when every connected group is such a clique (no order-dependent chains)
            valid0 = [f for f in frags if not lib.invalid_for(f, method)]
            comps = {}
            pinned = True
            for f in sorted(valid0, key=lambda f: f['site']):
                key0 = (f['cell'], f['ctg'], bool(f['rev']), f['umi'])
                lst = comps.setdefault(key0, [])
                if lst and f['site'] - lst[-1]['sites'][-1] <= radius:
                    lst[-1]['ids'].add(f['n'])
                    lst[-1]['sites'].append(f['site'])
                    if f['site'] - lst[-1]['sites'][0] > radius:
                        pinned = False
                else:
                    lst.append({'ids': {f['n']}, 'sites': [f['site']]})
            if pinned:
                exact_ok = True
                truth_r = {(k0, i): c['ids'] for k0, lst in comps.items() for i, c in enumerate(lst)}
                probe('radius_partition_pinned')
        if exact_ok:
            valid = [f for f in frags if not lib.invalid_for(f, method)]
            truth = truth_r if truth_r is not None else lib.truth_classes(valid)
            got_valid = [sorted(x['id'] for x in g) for g in mols if not any(x['overflow'] for x in g) and all(x['id'] in {f['n'] for f in valid} for x in g)]
            overflow = [g for g in mols if any(x['overflow'] for x in g)]
            if overflow:
                probe('overflow_molecule')
            for g in overflow:
                if len(g) != 1:
                    V('overflow-pseudo-molecule-not-single', 'api', fragments=[x['id'] for x in g], **ctx)
            # cap-aware comparison: union of a parent and its overflow singletons must be one truth class
            got_part = set()
            cls_of = {}
            for key, ids in truth.items():
                for i in ids:
                    cls_of[i] = key
            merged = collections.defaultdict(set)
            bad = False
            for g in got_valid + [[x['id'] for x in g] for g in overflow if g[0]['id'] in cls_of]:
                keys = {cls_of.get(i) for i in g}
                if len(keys) != 1:
                    V('partition-differs-from-truth', 'api/merged-distinct-classes', fragments=g[:6], **ctx)
                    bad = True
                    break
                merged[keys.pop()].update(g)
            if not bad:
                if cap is None:
                    part = {frozenset(g) for g in got_valid}
                    tru = {frozenset(v) for v in truth.values()}
                    if part != tru:
                        V('partition-differs-from-truth', 'api/split-class', got_only=sorted(map(sorted, part - tru))[:3], truth_only=sorted(map(sorted, tru - part))[:3], **ctx)
                else:
                    for key, ids in truth.items():
                        parents = [g for g in got_valid if cls_of.get(g[0]) == key]
                        if len(parents) != 1 or len(parents[0]) != min(cap, len(ids)) or merged[key] != ids:
                            V('partition-differs-from-truth', 'api/cap', truth=sorted(ids)[:8], parents=parents[:3], **ctx)
                            break
                        # TF of the parent counts the fragments that did not fit: n + overflow = size of the truth class
                        tf = {x['TF'] for g in mols for x in g if x['id'] in set(parents[0])}
                        if tf != {len(ids)}:
                            V('count-tags-wrong', 'api/TF-under-cap', truth_size=len(ids), TF=sorted(map(str, tf)), parent=parents[0][:6], **ctx)
                            break
    return n_eval


def _chain_layer(case, d, log, V, probe):
    p = case['params']
    chain = case['chain']
    if not chain:
        return 0, [], 0, 0.0
    in_bam = tc.write_input(d, case)
    cur = in_bam
    prev_part = None
    traces = []
    steps = 0
    sim_time = 0.0
    preflag = any(f.get('dup') for f in case['workload'])
    valid = [f for f in case['workload'] if not lib.invalid_for(f, p['method'])]
    valid_ids = {f['n'] for f in valid}
    truth_part = {frozenset(v) for v in lib.truth_classes(valid).values()}
    by_site = collections.defaultdict(set)
    for f in valid:
        by_site[(f['cell'], f['ctg'], f['site'], bool(f['rev']))].add(f['umi'])
    separated = all(_hd(a, b) > 2 for us in by_site.values() for a in us for b in us if a != b)
    if separated:
        probe('chain_with_separated_umis')
    elif p.get('cli_hd') == 0:
        probe('cli_hamming0_with_near_umis')
    if len(chain) >= 2:
        probe('chain_of_2plus_lifetimes')
    if len({m['mp'] for m in chain}) > 1:
        probe('mode_switch_between_lifetimes')
    n = 0
    for li, mode in enumerate(chain):
        n += 1
        c2 = dict(case)
        c2['params'] = dict(p, max_associated_fragments=p.get('cap_cli'), umi_hamming_distance=p.get('cli_hd'))
        o = tc.run_mode(d, c2, mode, f'life{li}', in_bam=cur)
        res = o['res']
        traces.append(res.get('schedule_trace', []))
        steps += res.get('sched_steps', 0)
        sim_time += res.get('sim_time', 0.0)
        log.add('life', li, mode['name'], res.get('exception'), o['status'])
        ctx = {'layer': 'chain', 'lifetime': li, 'mode': mode['name'], 'method': p['method'], 'history': [m['name'] for m in chain[:li + 1]], 'preflag': preflag}
        if not o['ok'] or o.get('records') is None or o['problems']:
            V('lifetime-failed', f"chain/{tc.failure_signature(o) if not o['ok'] else (o['problems'] or ['unreadable'])[0]}", exception=res.get('exception'), status=o['status'],
              traceback=(res.get('traceback') or '')[-400:], **ctx)
            break
        groups = collections.defaultdict(dict)
        for r in o['records']:
            if r['sec']:
                continue
            t = r['alltags']
            # per-run molecule identifier of THIS lifetime (the other tag may be a stale leftover of the previous lifetime)
            key = ('ix', r['ref'] if r['ref'] is not None else r['mref'], t.get('ix')) if mode.get('mp') else ('mi', t.get('mi'))
            g = groups[key].setdefault(r['id'], {'id': r['id'], 'dups': [], 'RC': t.get('RC'), 'af': t.get('af'), 'TF': t.get('TF'), 'qcfail': bool(r['flag'] & 0x200)})
            g['dups'].append(bool(r['flag'] & 0x400))
        mols = []
        for key, members in groups.items():
            g = []
            for x in members.values():
                if len(set(x['dups'])) > 1:
                    V('mates-disagree-on-duplicate-bit', 'chain', fragment=x['id'], **ctx)
                x['dup'] = x['dups'][0]
                g.append(x)
            mols.append(g)
        log.add('partition', li, sorted(sorted(x['id'] for x in g) for g in mols))
        _check_molecule_tags(mols, V, ctx)
        part = {frozenset(x['id'] for x in g) for g in mols}
        # UMI linkage at distance k>0 is greedy and order dependent, and the order among equal coordinates changes between lifetimes;
        # the partition is therefore only pinned down when no two UMIs of one (cell, site, strand) are within distance 2 of each other:
        # then every lifetime must reproduce exactly the truth classes (hence the same partition in every lifetime)
        if (separated or p.get('cli_hd') == 0) and not p.get('cap_cli'):
            # pseudo-molecules made only of rejected records (e.g. the unmapped mate of a half-mapped pair) are not molecules of valid fragments
            vp = {frozenset(x['id'] for x in g) for g in mols if not all(x['qcfail'] for x in g) and all(x['id'] in valid_ids for x in g)}
            if vp != truth_part:
                V('partition-differs-from-truth', f"chain/{'first-lifetime' if li == 0 else 'retag'}{'/cli-hamming-0' if (p.get('cli_hd') == 0 and not separated) else ''}", got_only=sorted(map(sorted, vp - truth_part))[:3],
                  truth_only=sorted(map(sorted, truth_part - vp))[:3], **ctx)
        prev_part = part
        cur = o['out']
    return n, traces, steps, sim_time


def execute(case):
    log = EventLog(case.get('run_seed'))
    viol, probes = [], {}

    def probe(k, n=1):
        probes[k] = probes.get(k, 0) + n

    def V(cls, sig, **detail):
        viol.append({'property': PROPERTY, 'class': cls, 'signature': sig, 'detail': detail})

    n_api = _api_layer(case, log, V, probe)
    with scratch() as d:
        n_chain, traces, steps, sim_time = _chain_layer(case, d, log, V, probe)
    nontrivial = (probes.get('molecule_with_duplicates', 0) > 0 and probes.get('preflagged_input', 0) > 0) or len(case['chain']) >= 2
    return {'violations': viol, 'digest': log.digest(), 'probes': probes, 'faults': {}, 'evals': n_api + n_chain, 'steps': steps + log.n, 'sim_time': sim_time,
            'nontrivial': nontrivial, 'sig': log.digest(), 'schedule_traces': traces}


def make_explicit(case, out):
    c = dict(case)
    tr = out.get('schedule_traces') or []
    c['chain'] = [dict(m, schedule={'policy': 'explicit', 'decisions': tr[i]}) if i < len(tr) and m.get('mp') else dict(m) for i, m in enumerate(case['chain'])]
    return c


def sample_view(case, out):
    return {'params': case['params'], 'genome': case['genome'], 'fragments(first 5 of %d)' % len(case['workload']): case['workload'][:5], 'api': case['api'], 'chain': case['chain']}


def LIST_PATHS(case):
    return [('api',), ('workload',), ('chain',)]


def _shrink(case):
    if any(f.get('defect') or f.get('extra') or f.get('clip') for f in case['workload']):
        yield {**case, 'workload': [{**f, 'defect': None, 'extra': None, 'clip': 0} for f in case['workload']]}
    if any(f.get('dup') for f in case['workload']):
        yield {**case, 'workload': [{k: v for k, v in f.items() if k != 'dup'} for f in case['workload']]}
    for i, m in enumerate(case['chain']):
        if m.get('mp'):
            x = [dict(y) for y in case['chain']]
            x[i]['mp'] = False
            x[i]['name'] = x[i]['name'][:-1] + 's'
            yield {**case, 'chain': x}
    if case['params'].get('cap_cli'):
        yield {**case, 'params': {**case['params'], 'cap_cli': None}}


SHRINKERS = (_shrink,)
