"""C19 - per-cell file splitting loses no record under handle limits and open failures.

Real: HandleLimiter, FastqHandle(single_cell=True), gzip compression / member
concatenation.  Stub: SimFS (in-memory files, fd budget, open faults), SimClock.

One driver "run" = one sampled write sequence x an *enumerated* family of fault
plans (every fd budget, a transient failure at every open attempt, every path
permanently failing) - fault enumeration per sampled workload.
"""
import errno
import gzip
import io
import os
import contextlib

from ..rng import Streams, weighted
from ..log import EventLog
from ..simfs import SimFS, SimClock

NAME = 'handles'
PROPERTY = 'C19'
LEVEL = 'fault_enumeration'
RULE = ('A case is one seeded write sequence (1..600 unique payloads over 1..200 paths, Zipf-like reuse; '
        'maxHandles, pruneEvery, method, clock mode drawn per case) crossed with an enumerated fault family: '
        'no fault; fd budget k for every k in 1..#paths; one transient open failure at every open-attempt index '
        '(errno cycling EMFILE/ENFILE/EIO); every path permanently failing (EACCES); pairs of transient faults on '
        'consecutive attempts. Indices are capped at 48 per kind for long sequences (sampled evenly). '
        'evaluations = (sequence, fault plan) executions. A sub-case is non-trivial when at least one injected '
        'fault fired or a prune closed a handle that was later re-opened in append mode; distinct = distinct '
        '(open/close/fault event trace) digests among those. 30% of the cases additionally split a seeded tagged BAM (1..14 cells, some reads without the tag, some tagged reads without a reference position; string values, values colliding after file-name clean-up, or integer values 0..n-1) '
        'with bamSplitByTag for max_handles in {1, cells-1, cells, cells+1, random, 400}: every cell file must exist and hold exactly its reads in input order.')
ASSUMPTIONS = [
    'open() failures are injected at the module seam handlelimiter.gzip.open / handlelimiter.open; write()/close() I/O errors are outside the statement and not injected',
    'storage is an in-memory byte buffer per path; gzip compression and member concatenation are the real library',
    'a write() may raise only if one of its own open attempts failed while no other shim handle was open',
]
COMPONENTS = {
    'real': ['bamSplitByTag __main__ driver loop + split_bam_by_tag (re-executed with runpy in a forked child, real BAM files in scratch)', 'singlecellmultiomics.pyutils.handlelimiter.HandleLimiter', 'singlecellmultiomics.fastqProcessing.fastqHandle.FastqHandle(single_cell=True)', 'gzip.GzipFile'],
    'stub': ['(fidelity cross-check of SimFS: 4% of the cases also run on real gzip files under a real RLIMIT_NOFILE in a forked child)', 'SimPool for the index step of bamSplitByTag (multiprocessing.Pool rebound in the child)', 'SimFS (handlelimiter.gzip / handlelimiter.open): in-memory files, fd budget, transient/permanent open faults', 'SimClock (handlelimiter.time)'],
}
ISOLATE = True      # every case runs in a forked child of the worker: no repository state travels between cases
REQUIRED_PROBES = ['split_unplaced_tagged_reads', 'split_integer_tag_values', 'real_fd_limit_run', 'stale_file_present', 'split_colliding_tag_values', 'split_limit_below_cell_count', 'emfile_recovery', 'prune_closed_then_reopened', 'transient_fault_fired', 'permanent_fault_fired', 'write_raised_legitimately']
EXHAUSTIVE_NOTE = 'fault plans are enumerated per sampled write sequence (capped at 48 indices per kind); write sequences are sampled'
ERRNOS = [errno.EMFILE, errno.ENFILE, errno.EIO]


def plan(tier):
    if tier == 'quick':
        return {'runs': 480, 'budget_s': 40, 'chunk': 6, 'per_run_timeout': 120}
    return {'runs': 24000, 'budget_s': 540, 'chunk': 12, 'per_run_timeout': 240}


def setup():
    import singlecellmultiomics.pyutils.handlelimiter  # noqa
    import singlecellmultiomics.fastqProcessing.fastqHandle  # noqa


def _even(n, cap):
    if n <= cap:
        return list(range(n))
    return sorted({int(i * (n - 1) / (cap - 1)) for i in range(cap)})


def generate(seed, tier):
    st = Streams(seed)
    w = st.workload
    n_paths = weighted(w, [(1, 1), (2, 3), (3, 4), (w.randint(4, 12), 6), (w.randint(13, 60), 3), (w.randint(61, 200), 1)])
    n_writes = weighted(w, [(w.randint(1, 6), 3), (w.randint(7, 40), 6), (w.randint(41, 150), 3), (w.randint(151, 600), 1)])
    # Zipf-like reuse so that pruned files get re-opened
    weights = [1.0 / (i + 1) ** w.choice([0.0, 0.7, 1.2]) for i in range(n_paths)]
    tot = sum(weights)
    writes = []
    for i in range(n_writes):
        x = w.random() * tot
        p = 0
        for j, wt in enumerate(weights):
            x -= wt
            if x < 0:
                p = j
                break
        ln = weighted(w, [(0, 1), (w.randint(1, 20), 6), (w.randint(21, 300), 2)])
        writes.append([p, i, ln])
    api = weighted(w, [('limiter', 5), ('fastqhandle', 2)])
    params = {
        'api': api,
        'method': 1 if api == 'fastqhandle' else weighted(w, [(1, 4), (0, 2)]),
        'maxHandles': weighted(w, [(1, 2), (2, 2), (w.randint(3, 8), 4), (w.randint(9, 64), 2)]),
        'pruneEvery': weighted(w, [(1, 3), (w.randint(2, 10), 4), (w.randint(11, 50), 2), (10000, 1)]),
        'compressionLevel': w.choice([1, 1, 6]),
        'clock': weighted(st.schedule, [('monotone', 4), ('ties', 2), ('frozen', 1), ('backjump', 2)]),
        'clock_jump_at': st.schedule.randint(1, max(1, n_writes)),
        'paired': w.random() < 0.5,
        # leftovers of an earlier run in the same output folder: the first write to a path must replace them
        'stale': sorted(w.sample(range(n_paths), w.randint(1, min(3, n_paths)))) if w.random() < 0.3 else [],
    }
    # ---- enumerated fault family ------------------------------------
    plans = [{'kind': 'none', 'budget': None, 'transient': [], 'permanent': []}]
    used_paths = sorted({p for p, _, _ in writes})
    f = st.faults
    for k in _even(len(used_paths) * (2 if api == 'fastqhandle' and params['paired'] else 1), 48):
        plans.append({'kind': 'budget', 'budget': k + 1, 'transient': [], 'permanent': []})
    # number of open attempts is not known before running; bound it by 2*writes, unused indices are harmless
    n_open_bound = min(2 * n_writes * (2 if api == 'fastqhandle' and params['paired'] else 1), 400)
    for j, i in enumerate(_even(n_open_bound, 48)):
        plans.append({'kind': 'transient', 'budget': None, 'transient': [[i, ERRNOS[(i + j) % 3]]], 'permanent': []})
    for i in _even(max(0, n_open_bound - 1), 12):
        plans.append({'kind': 'transient2', 'budget': None, 'transient': [[i, ERRNOS[i % 3]], [i + 1, ERRNOS[(i + 1) % 3]]], 'permanent': []})
    for p in _even(len(used_paths), 48):
        plans.append({'kind': 'permanent', 'budget': None, 'transient': [], 'permanent': [used_paths[p]]})
    # a few mixed plans: budget + transient
    for _ in range(min(6, len(used_paths))):
        plans.append({'kind': 'mixed', 'budget': f.randint(1, max(1, len(used_paths))),
                      'transient': [[f.randint(0, max(0, n_open_bound - 1)), f.choice(ERRNOS)]],
                      'permanent': [f.choice(used_paths)] if f.random() < 0.3 else []})
    case = {'params': params, 'workload': writes, 'fault_plans': plans}
    if w.random() < 0.04:
        # fidelity of the SimFS stub: the same sequence on REAL gzip files under a REAL descriptor limit (RLIMIT_NOFILE) in a forked child
        case['real_fd'] = {'spare': w.choice([1, 2, 3, 5, 8])}
    if w.random() < 0.3:
        # second code path of the property: bamSplitByTag re-scans the input with a cap on simultaneously open BAM handles
        ncell = weighted(w, [(1, 1), (w.randint(2, 6), 5), (w.randint(7, 14), 2)])
        nread = weighted(w, [(w.randint(1, 10), 3), (w.randint(11, 60), 4)])
        reads = [[w.randrange(ncell), i, w.random() < 0.9] for i in range(nread)]     # [cell, id, has_tag]
        # tag values that become the same file name after clean-up ('plate 1' / 'plate_1' / 'plate*1' ...): one file holds them all
        collide = w.random() < 0.35
        limits = sorted({1, ncell, ncell + 1, max(1, ncell - 1), w.randint(1, ncell + 1), 400})
        case['split'] = {'cells': ncell, 'reads': reads, 'max_handles': limits, 'collide': collide}
        if w.random() < 0.3:
            # tagged reads without a reference position (they sit after the last placed read of a sorted BAM and belong to their cell's file too)
            case['split']['unplaced'] = sorted(w.sample(range(nread), w.randint(1, max(1, nread // 3))))
        if not collide and w.random() < 0.35:
            case['split']['tagtype'] = 'int'      # integer-typed tag (cluster / plate number): values 0..ncell-1, file name = the number
    return case


class _Rec:
    """stand-in for a demultiplexed record (FastqHandle only needs .tags and str())"""

    def __init__(self, cell, text, mx='SIM'):
        self.tags = {'bi': cell, 'MX': mx}
        self.text = text

    def __str__(self):
        return self.text


def _payload(i, ln, mate=''):
    return f'@w{i}{mate}\n' + ('A' * ln) + '\n'


def _tokens(text):
    """split decompressed content back into payloads (each is '@w<i>\\nAAAA\\n')"""
    out = []
    parts = text.split('@w')
    if parts and parts[0] != '':
        return None
    for p in parts[1:]:
        out.append('@w' + p)
    return out


def run_plan(params, writes, fplan, log):
    import singlecellmultiomics.pyutils.handlelimiter as hl
    from singlecellmultiomics.fastqProcessing.fastqHandle import FastqHandle
    viol = []
    probes = {}

    def probe(k, n=1):
        probes[k] = probes.get(k, 0) + n

    fs = SimFS(log, budget=fplan['budget'], transient={int(a): b for a, b in fplan['transient']},
               permanent=[f'/sim/p{p}' for p in fplan['permanent']])
    clock = SimClock(params['clock'], jump_at=params['clock_jump_at'])
    for sp_ in params.get('stale') or []:
        names = [f'/sim/p{sp_}'] if params['api'] == 'limiter' else [f'/sim/out.p{sp_ // 2}.SIM{sp_ % 2}.R1.fastq.gz', f'/sim/out.p{sp_ // 2}.SIM{sp_ % 2}.R2.fastq.gz']
        for nm_ in names:
            old = '@wSTALE\nOLDRUN\n'
            fs.files[nm_] = io.BytesIO(gzip.compress(old.encode(), mtime=0) if params['method'] == 1 else old.encode())
        probe('stale_file_present')
    saved = (hl.__dict__.get('gzip'), hl.__dict__.get('time'), hl.__dict__.get('open', None))
    hl.gzip = fs.gzip_module()
    hl.time = clock
    hl.open = fs.open_builtin()
    # belt and braces: whatever way the module reaches gzip.open / open, paths under /sim/ end up in the SimFS
    import builtins
    real_gz_open, real_builtin_open = gzip.open, builtins.open

    def _gz_router(path, mode='rb', *a, **k):
        if isinstance(path, str) and path.startswith('/sim/'):
            return fs._open(path, mode, gz=True, level=(a[0] if a else k.get('compresslevel', 9)))
        return real_gz_open(path, mode, *a, **k)

    def _open_router(path, mode='r', *a, **k):
        if isinstance(path, str) and path.startswith('/sim/'):
            return fs._open(path, mode, gz=False, level=None)
        return real_builtin_open(path, mode, *a, **k)
    gzip.open, builtins.open = _gz_router, _open_router
    api = params['api']
    method = params['method']
    paired = params['paired'] and api == 'fastqhandle'
    if api == 'fastqhandle':
        # permanent failures name the R1 file of that cell
        fs.permanent = {f'/sim/out.p{p // 2}.SIM{p % 2}.R1.fastq.gz' for p in fplan['permanent']}
    acked = {}      # path -> list of (payload, required)
    seen_closed = set()
    try:
        sink = io.StringIO()
        with contextlib.redirect_stdout(sink):
            if api == 'limiter':
                h = hl.HandleLimiter(maxHandles=params['maxHandles'], pruneEvery=params['pruneEvery'],
                                     compressionLevel=params['compressionLevel'])
                lim = h
            else:
                h = FastqHandle('/sim/out', pairedEnd=paired, single_cell=True, maxHandles=params['maxHandles'])
                lim = h.handles
                lim.pruneEvery = params['pruneEvery']
            for (p, i, ln) in writes:
                if api == 'limiter':
                    ops = [(f'/sim/p{p}', _payload(i, ln))]
                else:
                    ops = [(f'/sim/out.p{p // 2}.SIM{p % 2}.R1.fastq.gz', _payload(i, ln, 'a'))]
                    if paired:
                        ops.append((f'/sim/out.p{p // 2}.SIM{p % 2}.R2.fastq.gz', _payload(i, ln, 'b')))
                a0 = fs.attempts
                open_before = dict(fs.open_paths)
                raised = None
                try:
                    if api == 'limiter':
                        lim.write(ops[0][0], ops[0][1], method=method)
                    else:
                        recs = [_Rec(f'p{p // 2}', t, mx=f'SIM{p % 2}') for _, t in ops]
                        h.write(recs)
                except Exception as e:  # noqa
                    raised = e
                attempts = [t for t in fs.attempt_trace if t[0] >= a0]
                log.add('write', i, p, 'raised:' + type(raised).__name__ if raised else 'ok', len(attempts))
                # prune / re-open probe
                for (_, path, others, outc) in attempts:
                    if outc == 'ok' and path in seen_closed:
                        probe('prune_closed_then_reopened')
                for path, c in open_before.items():
                    if c > 0 and fs.open_paths.get(path, 0) == 0:
                        seen_closed.add(path)
                if any(o == 'fail' and oth > 0 for (_, _, oth, o) in attempts) and raised is None:
                    probe('emfile_recovery')
                if raised is None:
                    for path, text in ops:
                        acked.setdefault(path, []).append((text, True))
                else:
                    legit = any(o == 'fail' and oth == 0 for (_, _, oth, o) in attempts)
                    if not attempts and any(path in fs.permanent for path, _ in ops):
                        legit = True   # raised without trying, but the path cannot be opened at all
                    if legit:
                        probe('write_raised_legitimately')
                    else:
                        if any(o == 'fail' for (_, _, _, o) in attempts):
                            cause = 'open-failed-only-while-others-open'
                        elif not attempts:
                            cause = 'no-open-attempt'
                        else:
                            cause = 'opens-succeeded'
                        viol.append({'property': PROPERTY, 'class': 'spurious-raise',
                                     'signature': f'{type(raised).__name__}/{cause}',
                                     'detail': {'write': i, 'path': p, 'exception': repr(raised)[:200], 'plan': fplan,
                                                'attempts': [list(a) for a in attempts][:8]}})
                    # in paired mode R1 may have been written before R2 raised
                    for path, text in ops:
                        acked.setdefault(path, []).append((text, False))
                # bounded liveness
                lim_att = (2 + len(fplan['transient'])) * len(ops)
                if len(attempts) > lim_att:
                    viol.append({'property': PROPERTY, 'class': 'livelock', 'signature': 'too-many-open-attempts',
                                 'detail': {'write': i, 'attempts': len(attempts), 'limit': lim_att, 'plan': fplan}})
                    break
            try:
                h.close()
            except Exception as e:
                viol.append({'property': PROPERTY, 'class': 'close-raised', 'signature': type(e).__name__,
                             'detail': {'error': repr(e)[:200], 'plan': fplan}})
    finally:
        gzip.open, builtins.open = real_gz_open, real_builtin_open
        hl.gzip, hl.time = saved[0], saved[1]
        if saved[2] is None:
            hl.__dict__.pop('open', None)
        else:
            hl.open = saved[2]
    if writes and fs.attempts == 0:
        raise RuntimeError('SimFS seam not effective: HandleLimiter wrote without any open() reaching the simulated file system')
    # ---- post-mortem oracle ---------------------------------------------
    if fs.open_count != 0:
        viol.append({'property': PROPERTY, 'class': 'handle-leak', 'signature': 'open-after-close',
                     'detail': {'open': fs.open_count, 'paths': sorted(k for k, v in fs.open_paths.items() if v)[:5], 'plan': fplan}})
    for path, exp in sorted(acked.items()):
        need = [t for t, req in exp if req]
        opened = any(pth == path and outc == 'ok' for (_, pth, _, outc) in fs.attempt_trace)
        if not opened and not need:
            continue        # never opened in this run (e.g. permanently failing path): whatever an earlier run left there is untouched
        if path not in fs.files:
            if need:
                viol.append({'property': PROPERTY, 'class': 'lost-record', 'signature': 'file-missing',
                             'detail': {'path': path, 'expected': len(need), 'plan': fplan}})
            continue
        raw = fs.content(path)
        if method == 1:
            try:
                text = gzip.decompress(raw).decode() if raw else ''
            except Exception as e:
                viol.append({'property': PROPERTY, 'class': 'invalid-gzip', 'signature': type(e).__name__,
                             'detail': {'path': path, 'error': repr(e)[:200], 'plan': fplan}})
                continue
        else:
            text = raw.decode()
        toks = _tokens(text)
        if toks is None:
            viol.append({'property': PROPERTY, 'class': 'garbage', 'signature': 'unparseable', 'detail': {'path': path, 'plan': fplan}})
            continue
        # sequence match: required payloads in order; optional (raised) ones may be present once at their position
        j = 0
        ok = True
        for t, req in exp:
            if j < len(toks) and toks[j] == t:
                j += 1
            elif req:
                ok = False
                break
        if ok and j != len(toks):
            ok = False
        if not ok:
            got = set(toks)
            missing = [t.split('\n')[0] for t in need if t not in got]
            dup = len(toks) != len(got)
            cls = 'lost-record' if missing else ('duplicate-record' if dup else 'order-or-extra')
            viol.append({'property': PROPERTY, 'class': cls, 'signature': 'content-mismatch',
                         'detail': {'path': path, 'missing': missing[:5], 'n_expected': len(need), 'n_got': len(toks), 'plan': fplan}})
    for k, c in fs.fired.items():
        if k.startswith('transient'):
            probe('transient_fault_fired', c)
        if k.startswith('permanent'):
            probe('permanent_fault_fired', c)
        if k.startswith('budget'):
            probe('budget_fault_fired', c)
    probe('max_open_handles_seen', 0)
    return viol, probes, fs


def execute(case):
    log = EventLog(case.get('run_seed'))
    params, writes = case['params'], [tuple(w) for w in case['workload']]
    viol, probes, faults = [], {}, {}
    sigs = []
    clock_ticks = 0
    for pi, fplan in enumerate(case['fault_plans']):
        sub = EventLog()
        v, pr, fs = run_plan(params, writes, fplan, sub)
        d = sub.digest()
        log.add('plan', pi, fplan['kind'], d, len(v))
        for x in v:
            x['detail']['plan_index'] = pi
        viol.extend(v)
        for k, c in pr.items():
            probes[k] = probes.get(k, 0) + c
        for k, c in fs.fired.items():
            faults[k] = faults.get(k, 0) + c
        nontrivial = bool(fs.fired) or pr.get('prune_closed_then_reopened', 0) > 0
        sigs.append((d[:16], nontrivial))
        clock_ticks += fs.attempts
    if case.get('real_fd'):
        v, sg = run_real_fd(case, log, probes)
        viol.extend(v)
        sigs.extend(sg)
    n_split = 0
    if case.get('split'):
        v, n_split, sg = run_split(case, log, probes)
        viol.extend(v)
        sigs.extend(sg)
    return {'violations': viol, 'digest': log.digest(), 'probes': probes, 'faults': faults,
            'evals': len(case['fault_plans']) + n_split, 'sigs': sigs, 'steps': log.n + clock_ticks,
            'sim_time': 0.0, 'nontrivial': any(s[1] for s in sigs)}


class _NoProgress(BaseException):
    pass


def _split_child(d, bam, k, seed, wfd, max_passes=None):
    import json, multiprocessing, os, runpy, sys
    from ..rng import stream
    from ..pool import Scheduler, SimPoolFactory
    os.chdir(d)
    dn = os.open(os.devnull, os.O_WRONLY)
    os.dup2(dn, 1)
    os.dup2(dn, 2)
    sys.stdout = open(os.devnull, 'w')
    elog = EventLog()
    fac = SimPoolFactory(Scheduler({'policy': 'seeded'}, stream(seed, 'schedule'), elog))
    multiprocessing.Pool = fac.Pool                  # `from multiprocessing import Pool` in the re-executed module picks this up
    out = os.path.join(d, f'split_{k}') + '/'
    sys.argv = ['bamSplitByTag.py', bam, 'SM', '-o_folder', out, '-max_handles', str(k)]
    res = {'exception': None}
    if max_passes:
        # bounded progress: every pass over the input opens it once and must finish at least one tag value, so #values + 2 passes are enough;
        # a tool that keeps re-scanning is stopped there (simulated step budget, no wall clock)
        import pysam
        real_af = pysam.AlignmentFile
        opened = [0]

        class _Counting(real_af):
            def __init__(self, *a, **kw):
                if (len(a) < 2 or 'w' not in str(a[1])) and 'w' not in str(kw.get('mode', '')):
                    opened[0] += 1
                    if opened[0] > max_passes:
                        raise _NoProgress(f'input scanned more than {max_passes} times')
        pysam.AlignmentFile = _Counting
    try:
        runpy.run_module('singlecellmultiomics.bamProcessing.bamSplitByTag', run_name='__main__')
    except _NoProgress as e:
        res['exception'] = f'NoProgress: {e}'
    except SystemExit as e:
        res['exception'] = f'SystemExit({e.code})' if e.code else None
    except BaseException as e:
        res['exception'] = f'{type(e).__name__}: {e}'[:300]
    os.write(wfd, json.dumps(res).encode())
    os._exit(0)


def _real_fd_child(d, params, writes, spare, wfd):
    import json
    import resource
    import singlecellmultiomics.pyutils.handlelimiter as hl
    os.chdir(d)
    dn = os.open(os.devnull, os.O_WRONLY)
    os.dup2(dn, 1)
    os.dup2(dn, 2)
    acked, raised = [], []
    try:
        h = hl.HandleLimiter(maxHandles=params['maxHandles'], pruneEvery=params['pruneEvery'], compressionLevel=1)
        base_fds = len(os.listdir('/proc/self/fd'))
        resource.setrlimit(resource.RLIMIT_NOFILE, (base_fds + spare, resource.getrlimit(resource.RLIMIT_NOFILE)[1]))
        for (p, i, ln) in writes:
            try:
                h.write(f'p{p}.gz', _payload(i, ln), method=1)
                acked.append([p, i, ln])
            except Exception as e:
                raised.append([p, i, type(e).__name__])
        h.close()
    except BaseException as e:
        raised.append([-1, -1, 'harness:' + repr(e)[:100]])
    os.write(wfd, json.dumps({'acked': acked, 'raised': raised}).encode())
    os._exit(0)


def run_real_fd(case, log, probes):
    import json
    from ..scratch import scratch
    params, writes = case['params'], [tuple(w) for w in case['workload']]
    viol, sigs = [], []
    with scratch() as d:
        rfd, wfd = os.pipe()
        pid = os.fork()
        if pid == 0:
            os.close(rfd)
            try:
                _real_fd_child(d, params, writes, case['real_fd']['spare'], wfd)
            finally:
                os._exit(96)
        os.close(wfd)
        data = b''
        while True:
            b = os.read(rfd, 65536)
            if not b:
                break
            data += b
        os.close(rfd)
        os.waitpid(pid, 0)
        res = json.loads(data.decode()) if data else {'acked': [], 'raised': [[-1, -1, 'child died']]}
        probes['real_fd_limit_run'] = probes.get('real_fd_limit_run', 0) + 1
        want = {}
        for p, i, ln in res['acked']:
            want.setdefault(f'p{p}.gz', []).append(_payload(i, ln))
        n_paths = len({p for p, _, _ in writes})
        if case['real_fd']['spare'] < min(n_paths, params['maxHandles'] + 1):
            probes['real_fd_limit_below_demand'] = probes.get('real_fd_limit_below_demand', 0) + 1
        log.add('real-fd', case['real_fd'], len(res['acked']), [r[2] for r in res['raised']])
        ctx = {'spare_descriptors': case['real_fd']['spare'], 'layer': 'real files + RLIMIT_NOFILE'}
        for r in res['raised']:
            # with >= 1 spare descriptor the file can always be opened once the others are closed
            viol.append({'property': PROPERTY, 'class': 'spurious-raise', 'signature': f'real-fd/{r[2]}', 'detail': {**ctx, 'write': r[1], 'path': r[0]}})
        for path, payloads in sorted(want.items()):
            try:
                with open(os.path.join(d, path), 'rb') as f:
                    text = gzip.decompress(f.read()).decode()
            except Exception as e:
                viol.append({'property': PROPERTY, 'class': 'invalid-gzip', 'signature': 'real-fd/' + type(e).__name__, 'detail': {**ctx, 'path': path}})
                continue
            if text != ''.join(payloads):
                viol.append({'property': PROPERTY, 'class': 'lost-record', 'signature': 'real-fd/content-mismatch',
                             'detail': {**ctx, 'path': path, 'n_expected': len(payloads), 'n_got': len(_tokens(text) or [])}})
        sigs.append((log.digest()[:16], True))
    return viol, sigs


def _tagvalue(sp, cell, i):
    """raw tag value; with 'collide' several raw spellings clean up to the same file name LIB_<cell>"""
    if sp.get('tagtype') == 'int':
        return int(cell)
    if not sp.get('collide'):
        return f'LIB_{cell}'
    return [f'LIB_{cell}', f'LIB {cell}', f'LIB_{cell}*', f' LIB_{cell}'][(i + cell) % 4]


def run_split(case, log, probes):
    import json
    import os
    import pysam
    from ..scratch import scratch
    sp = case['split']
    viol, sigs = [], []
    n = 0
    with scratch() as d:
        bam = os.path.join(d, 'in.bam')
        header = pysam.AlignmentHeader.from_dict({'HD': {'VN': '1.6', 'SO': 'coordinate'}, 'SQ': [{'SN': 'c1', 'LN': 100000}]})
        unplaced = set(sp.get('unplaced') or [])
        order = [x for x in sp['reads'] if x[1] not in unplaced] + [x for x in sp['reads'] if x[1] in unplaced]
        if unplaced:
            probes['split_unplaced_tagged_reads'] = probes.get('split_unplaced_tagged_reads', 0) + 1
        with pysam.AlignmentFile(bam, 'wb', header=header) as o:
            for cell, i, tagged in order:
                r = pysam.AlignedSegment(header)
                r.query_name = f'q{i}'
                r.query_sequence = 'ACGT'
                if i in unplaced:
                    r.flag = 4
                    r.reference_id = -1
                    r.reference_start = -1
                    r.mapping_quality = 0
                else:
                    r.reference_id = 0
                    r.reference_start = 10 + i
                    r.cigartuples = [(0, 4)]
                    r.mapping_quality = 60
                if tagged:
                    r.set_tag('SM', _tagvalue(sp, cell, i))
                o.write(r)
        pysam.index(bam)
        want = {}
        for cell, i, tagged in order:
            if tagged:
                want.setdefault(str(cell) if sp.get('tagtype') == 'int' else f'LIB_{cell}', []).append(f'q{i}')     # the cleaned-up name; colliding raw values share the file
        if sp.get('tagtype') == 'int':
            probes['split_integer_tag_values'] = probes.get('split_integer_tag_values', 0) + 1
        if sp.get('collide'):
            probes['split_colliding_tag_values'] = probes.get('split_colliding_tag_values', 0) + 1
        for k in sp['max_handles']:
            n += 1
            rfd, wfd = os.pipe()
            pid = os.fork()
            if pid == 0:
                os.close(rfd)
                try:
                    _split_child(d, bam, k, f"{case.get('run_seed')}/{k}", wfd, max_passes=len({x[0] for x in sp['reads']}) + 2)
                finally:
                    os._exit(98)
            os.close(wfd)
            data = b''
            while True:
                b = os.read(rfd, 65536)
                if not b:
                    break
                data += b
            os.close(rfd)
            os.waitpid(pid, 0)
            res = json.loads(data.decode()) if data else {'exception': 'child died'}
            probes['split_run'] = probes.get('split_run', 0) + 1
            if k < len(want):
                probes['split_limit_below_cell_count'] = probes.get('split_limit_below_cell_count', 0) + 1
            got = {}
            out = os.path.join(d, f'split_{k}')
            problems = []
            if os.path.isdir(out):
                for f in sorted(os.listdir(out)):
                    if f.endswith('.bam'):
                        try:
                            with pysam.AlignmentFile(os.path.join(out, f)) as a:
                                got[f[:-4]] = [r.query_name for r in a.fetch(until_eof=True)]
                        except Exception as e:
                            problems.append(f'{f}: unreadable {type(e).__name__}')
            log.add('split', k, res.get('exception'), sorted((c, v) for c, v in got.items()))
            sigs.append((log.digest()[:16], k < len(want)))
            ctx = {'max_handles': k, 'cells': len(want), 'reads': len(sp['reads'])}
            if res.get('exception'):
                viol.append({'property': PROPERTY, 'class': 'split-raised', 'signature': 'bamSplitByTag/' + res['exception'].split(':')[0], 'detail': {**ctx, 'error': res['exception']}})
                continue
            if problems:
                viol.append({'property': PROPERTY, 'class': 'invalid-output', 'signature': 'bamSplitByTag/unreadable', 'detail': {**ctx, 'problems': problems[:3]}})
            if got != want:
                missing = sorted(set(want) - set(got))
                wrong = sorted(c for c in want if c in got and got[c] != want[c])
                cls = 'lost-record' if missing or any(len(got[c]) < len(want[c]) for c in wrong) else 'order-or-extra'
                viol.append({'property': PROPERTY, 'class': cls, 'signature': 'bamSplitByTag/' + ('cell-file-missing' if missing else 'cell-content'),
                             'detail': {**ctx, 'missing_cells': missing[:5], 'wrong_cells': wrong[:5], 'extra_cells': sorted(set(got) - set(want))[:5]}})
    return viol, n, sigs


def sample_view(case, out):
    return {'params': case['params'], 'writes(first 12 of %d) [path,id,len]' % len(case['workload']): case['workload'][:12],
            'fault_plans(first 6 of %d)' % len(case['fault_plans']): case['fault_plans'][:6]}


def LIST_PATHS(case):
    return [('fault_plans',), ('workload',), ('split', 'max_handles'), ('split', 'reads'), ('fault_plans', 0, 'transient'), ('fault_plans', 0, 'permanent')]


def _shrink(case):
    p = case['params']
    for k, v in (('maxHandles', 1), ('maxHandles', 2), ('pruneEvery', 1), ('pruneEvery', 10000), ('clock', 'monotone'), ('api', 'limiter'), ('paired', False)):
        if p.get(k) != v:
            c = {**case, 'params': {**p, k: v}}
            if k == 'api':
                c['params']['method'] = 1
            yield c
    # shorten payloads
    if any(w[2] > 1 for w in case['workload']):
        yield {**case, 'workload': [[w[0], w[1], min(w[2], 1)] for w in case['workload']]}


SHRINKERS = (_shrink,)
