"""C08 - parallel tagging is equivalent to serial tagging.

Three kinds of execution of the same input: S (single process), P (--multiprocess, one contig per process) and
T (region-tiling API: bins of bp_per_segment with fetch margins of fragment_size, grouped into jobs of bp_per_job),
P and T under a SimPool of width 1..8 with a seeded completion order.
"""
import collections
import json
import os

from ..rng import Streams, weighted
from ..log import EventLog
from ..scratch import scratch
from ..gen import tagwork as tw, library as lib
from .. import pipeline as pl
from .. import tagcommon as tc

NAME = 'parallel'
PROPERTY = 'C08'
LEVEL = 'exploration'
RULE = ('A case is one seeded input BAM (1..4 contigs of 300..8000 bp, dense libraries with molecules on both strands whose fragments straddle tile edges, '
        'sites forced onto tile starts/ends, unplaced and invalid fragments) tagged by S (serial), P (--multiprocess, contig per process) and two T executions '
        '(region tiling with bp_per_segment in [30,5000], bp_per_job in [segment, 20*segment], fragment_size >= longest fragment, sometimes larger than the segment), '
        'P/T under a SimPool of width 1..8 and a seeded completion order. Oracle: multiset of full canonical records (flags, positions, mate fields, sequence, '
        'qualities, every tag except mi/ix) identical across S, P and T; every molecule written by exactly one job, in T the job whose bin contains its site. '
        '40% of the cases add TL: the second tiling under -max_time_per_segment with a simulated clock (1 ms per reading) that stalls once for longer than the limit; '
        'records missing from TL must carry a site inside a segment the output header reports as timed out, nothing may be extra. '
        'evaluations = tagger lifetimes. Non-trivial: a T execution with >=3 jobs in which some molecule has fragments on both sides of a tile edge; '
        'distinct = distinct (input, tiling, schedule) digests among those.')
ASSUMPTIONS = [
    'precondition of the statement: fetch margin (fragment_size) >= the longest generated fragment; shorter margins are not generated',
    'per-run molecule identifiers (mi, ix) and record order among equal coordinates are not compared',
    'SimPool runs task bodies atomically in-process with pickled arguments/results',
    'the tiling API is called with the iterator arguments the command line builds for --multiprocess (captured from the real argument handling)',
]
COMPONENTS = {'real': tc.TAGGER_REAL + ['blacklisted_binning_contigs / blacklisted_binning / fill_range', 'bp_chunked', 'cut-site ownership filter in run_tagging_task'],
              'stub': tc.TAGGER_STUB + ['simulated task clock bound to tagging.datetime in TL lifetimes (1 ms per reading, one stall longer than the limit)']}
REQUIRED_PROBES = ['segment_timed_out_and_reported', 'forked_worker_processes', 'fragment_at_contig_start', 'contig_with_only_placed_unmapped_reads', 'tiling_lifetime', 'molecule_straddles_tile_edge', 'site_on_tile_boundary', 'delivery_order_not_submission_order', 'multi_job_tiling', 'margin_larger_than_segment', 'unplaced_reads']


def plan(tier):
    if tier == 'quick':
        return {'runs': 480, 'budget_s': 50, 'chunk': 2, 'per_run_timeout': 900}
    return {'runs': 40000, 'budget_s': 540, 'chunk': 4, 'per_run_timeout': 1800}


def setup():
    tc.setup_imports()


def generate(seed, tier):
    st = Streams(seed)
    w = st.workload
    method = w.choice(['nla', 'nla', 'chic'])
    nctg = w.choice([1, 1, 2, 3, 4])
    genome = [[f'ctg{i}', w.randint(300, 8000)] for i in range(nctg)]
    seg = weighted(w, [(w.randint(30, 200), 3), (w.randint(201, 1000), 4), (w.randint(1001, 5000), 2)])
    maxlen = max(l for _, l in genome)
    seg = max(seg, maxlen // 60)
    frags = tw.library(w, genome, method, n_target=w.randint(4, 50), dense=True)
    # force a share of sites onto tile boundaries of the first tiling
    for f in frags:
        if w.random() < 0.25:
            clen = genome[f['ctg']][1]
            k = w.randint(1, max(1, clen // seg))
            maxL = max([ff['L'] for ff in frags if ff['ctg'] == f['ctg']] + [f['L']])
            if clen - maxL - 8 > maxL + 8:
                f['site'] = min(max(k * seg + w.choice([0, -1, 1]), maxL + 8), clen - maxL - 8)
    if w.random() < 0.15 and frags:
        # a contig whose only records are flagged unmapped but carry a position on it
        ci = w.randrange(len(genome))
        for f in frags:
            if f['ctg'] == ci:
                f['defect'] = 'placed_unmapped'
                f['extra'] = None
                f['clip'] = 0
    longest = max([f['L'] for f in frags] + [1]) + 12
    params = {'method': method, 'encoded': w.random() < 0.7, 'lib': 'LIB'}
    s = st.schedule
    if w.random() < 0.03:
        # scaffold-rich assembly for the contig-per-process mode (small contigs adding up to more than one job size)
        genome, frags = tw.many_small_contigs(w, method, n=w.choice([None, None, None, w.randint(205, 260)]))
        return {'params': params, 'genome': genome, 'workload': frags,
                'modes': [{'mp': False, 'name': 'S'}, {'mp': True, 'name': 'P', 'width': s.randint(1, 8), 'schedule': {'policy': 'seeded'}, 'seed': seed + 'P'}]}
    modes = [{'mp': False, 'name': 'S'},
             {'mp': True, 'name': 'P', 'width': s.randint(1, 8), 'schedule': {'policy': 'seeded'}, 'seed': seed + 'P', 'isolation': s.choice(['inproc', 'fork'])}]
    for t in range(2):
        sg = seg if t == 0 else max(maxlen // 60, weighted(w, [(w.randint(30, 300), 3), (w.randint(301, 5000), 2)]))
        fsz = weighted(w, [(longest, 3), (longest + w.randint(1, 200), 3), (max(longest, sg + w.randint(1, 500)), 2)])
        modes.append({'mp': True, 'name': f'T{t}', 'api': 'tiling', 'width': s.randint(1, 8), 'schedule': {'policy': 'seeded'}, 'seed': seed + f'T{t}', 'isolation': s.choice(['inproc', 'fork']),
                      'tiling': {'bp_per_segment': sg, 'bp_per_job': sg * w.randint(1, 20), 'fragment_size': fsz, 'job_bed': s.choice([None, None, 'plain', 'gz'])}})
    if len(genome) >= 2 and s.random() < 0.25:
        # every execution restricted to ONE contig (-contig) whose name contains the name of another contig with reads
        nested = ['ctg1', 'ctg10', 'ctg101', 'ctg2']
        for i in range(len(genome)):
            genome[i][0] = nested[i]
        params['contig'] = 'ctg10'
    if s.random() < 0.4:
        # the tiling once more under a per-segment time limit, with a clock that stalls once: the segment caught by the stall is dropped and must be
        # REPORTED in the output header; everything outside reported segments must still equal the serial pass
        tl = dict(modes[-1]['tiling'], time_limit={'limit': 600, 'stall_at_call': s.randint(0, 30)})
        modes.append({'mp': True, 'name': 'TL', 'api': 'tiling', 'width': s.randint(1, 4), 'schedule': {'policy': 'seeded'}, 'seed': seed + 'TL',
                      'isolation': s.choice(['inproc', 'fork']), 'tiling': tl})
    return {'params': params, 'genome': genome, 'workload': frags, 'modes': modes}


def _full_key(r):
    return json.dumps([r['id'], r['mate'], r['flag'], r['ref'], r['pos'], r['mapq'], r['cigar'], r['mref'], r['mpos'], r['tlen'], r['seq'], r['qual'],
                       sorted((k, str(v)) for k, v in r['tags'].items())])


def execute(case):
    log = EventLog(case.get('run_seed'))
    p = case['params']
    viol, probes, sigs, traces = [], {}, [], []
    orders = []
    steps = 0
    sim_time = 0.0

    def probe(k, n=1):
        probes[k] = probes.get(k, 0) + n

    def V(cls, sig, **detail):
        viol.append({'property': PROPERTY, 'class': cls, 'signature': sig, 'detail': detail})

    with scratch() as d:
        in_bam = tc.write_input(d, case)
        if any(f.get('defect') == 'unplaced' for f in case['workload']):
            probe('unplaced_reads')
        if any(f.get('defect') == 'placed_unmapped' for f in case['workload']):
            probe('contig_with_only_placed_unmapped_reads')
        if any(min(v for v in lib.full_coords(f) if v is not None) == 0 for f in case['workload']):
            probe('fragment_at_contig_start')
        ref = None
        ref_name = None
        for mi, mode in enumerate(case['modes']):
            name = mode['name']
            o = tc.run_mode(d, case, mode, f'm{mi}', in_bam=in_bam)
            res = o['res']
            steps += res.get('sched_steps', 0)
            sim_time += res.get('sim_time', 0.0)
            traces.append(res.get('schedule_trace', []))
            order = (res.get('pool_orders') or [[]])[0] if res.get('pool_orders') else []
            if order:
                orders.append(f'{len(order)}:' + ','.join(map(str, order[:40])))
            jobs = res.get('jobs', [])
            log.add('mode', name, res.get('digest_events'), res.get('exception'), o['status'])
            nontrivial = False
            ctx = {'mode': name, 'method': p['method'], 'tiling': mode.get('tiling'), 'width': mode.get('width')}
            if mode.get('mp') and order != sorted(order):
                probe('delivery_order_not_submission_order')
            if mode.get('isolation') == 'fork':
                probe('forked_worker_processes')
            if mode.get('api') == 'tiling':
                probe('tiling_lifetime')
                t = mode['tiling']
                if t['fragment_size'] > t['bp_per_segment']:
                    probe('margin_larger_than_segment')
                if len(jobs) >= 3:
                    probe('multi_job_tiling')
                # workload-side probes against this tiling: tile edges from the observed regions
                edges = collections.defaultdict(set)
                for j in jobs:
                    for (c, s_, e_, fs, fe) in j['regions']:
                        if s_ is not None:
                            edges[c].add(s_)
                            edges[c].add(e_)
                straddle = boundary = False
                for f in case['workload']:
                    c = case['genome'][f['ctg']][0]
                    xs = [x for x in lib.full_coords(f) if x is not None]
                    lo, hi = min(xs), max(xs)
                    if any(lo < e <= hi for e in edges.get(c, ())):
                        straddle = True
                    if f['site'] in edges.get(c, ()) or f['site'] + 1 in edges.get(c, ()):
                        boundary = True
                if straddle:
                    probe('molecule_straddles_tile_edge')
                if boundary:
                    probe('site_on_tile_boundary')
                nontrivial = len(jobs) >= 3 and straddle
            sigs.append((log.digest()[:16], nontrivial))
            if not o['ok']:
                V('execution-failed', f"{name[0]}/{tc.failure_signature(o)}", exception=res.get('exception'), status=o['status'],
                  traceback=(res.get('traceback') or '')[-500:], **ctx)
                continue
            if o['problems'] or o.get('records') is None:
                V('output-not-sorted-indexed', f"{name[0]}/{(o['problems'] or ['unreadable'])[0]}", problems=o['problems'], **ctx)
                continue
            recs = [r for r in o['records'] if not r['sec']]
            keys = collections.Counter(_full_key(r) for r in recs)
            log.add('out', name, len(recs))
            if ref is None:
                ref, ref_name = keys, name
                ref_recs = recs
            elif (mode.get('tiling') or {}).get('time_limit'):
                import pysam
                import re as _re
                probe('time_limit_lifetime')
                with pysam.AlignmentFile(o['out']) as ah:
                    cos = ah.header.to_dict().get('CO', [])
                reported = []
                for line in cos:
                    m_ = _re.match(r'^scmo_blacklisted\t(.+):(\S+) (\S+)\t', line)
                    if m_:
                        reported.append((m_.group(1), None if m_.group(2) == 'None' else int(m_.group(2)), None if m_.group(3) == 'None' else int(m_.group(3))))
                log.add('reported-timeouts', sorted(map(str, reported)))
                if reported:
                    probe('segment_timed_out_and_reported')
                a, b = tc.multiset_diff(ref, keys)
                clen = dict(map(tuple, case['genome']))
                outside = []
                for k in a:
                    r = json.loads(k)
                    refname = r[3]
                    ds = dict(map(tuple, r[12])).get('DS') if len(r) > 12 else None
                    if ds is None or refname is None:
                        if not reported:
                            outside.append(r[0])
                        continue
                    ds = min(max(int(ds), 0), clen.get(refname, int(ds) + 1) - 1)
                    if not any(c == refname and s_ is not None and s_ <= ds < e_ for (c, s_, e_) in reported):
                        outside.append(r[0])
                if b:
                    V('records-differ-from-serial', 'TL-vs-S/extra-records-under-time-limit', n_only_parallel=sum(b.values()), reported=reported[:4], **ctx)
                if outside:
                    V('records-missing-in-parallel', 'TL-vs-S/missing-outside-reported-timeouts', only_serial_ids=sorted(set(outside))[:6], reported=reported[:6],
                      n_only_serial=sum(a.values()), **ctx)
            else:
                a, b = tc.multiset_diff(ref, keys)
                if a or b:
                    ra = [json.loads(k) for k in list(a)[:2]]
                    rb = [json.loads(k) for k in list(b)[:2]]
                    ids_a = sorted({json.loads(k)[0] for k in a})
                    ids_b = sorted({json.loads(k)[0] for k in b})
                    if sum(keys.values()) < sum(ref.values()) and not set(ids_b) - set(ids_a) or (ids_a and not ids_b):
                        cls = 'records-missing-in-parallel'
                    elif ids_b and not ids_a:
                        cls = 'records-duplicated-in-parallel'
                    else:
                        cls = 'records-differ-from-serial'
                    # which tags differ for the first id present on both sides
                    difftags = []
                    common = sorted(set(ids_a) & set(ids_b))
                    if common:
                        xa = next(json.loads(k) for k in a if json.loads(k)[0] == common[0])
                        xb = next(json.loads(k) for k in b if json.loads(k)[0] == common[0] and json.loads(k)[1] == xa[1]) if any(
                            json.loads(k)[0] == common[0] and json.loads(k)[1] == xa[1] for k in b) else None
                        if xb:
                            ta, tb = dict(map(tuple, xa[12])), dict(map(tuple, xb[12]))
                            difftags = sorted(k for k in set(ta) | set(tb) if ta.get(k) != tb.get(k))
                            if xa[2] != xb[2]:
                                difftags.append('FLAG')
                    V(cls, f"{name[0]}-vs-{ref_name}/{','.join(difftags)[:40] or 'records'}", only_serial_ids=ids_a[:6], only_parallel_ids=ids_b[:6],
                      n_only_serial=sum(a.values()), n_only_parallel=sum(b.values()), differing_tags=difftags, **ctx)
            # ownership: each molecule written by exactly one job (observed from the per-job temp files before the merge)
            if mode.get('mp') and jobs:
                owner = collections.defaultdict(set)
                for ji, j in enumerate(jobs):
                    for (qname, mate, ds, refname, ix) in j['records']:
                        owner[(lib.identity_of(qname), mate)].add(ji)
                        if mode.get('api') == 'tiling' and ds is not None and refname is not None:
                            regs = [(c, s_, e_) for (c, s_, e_, fs, fe) in j['regions'] if c == refname and s_ is not None]
                            # a site just outside the contig (MNase offset of a read touching a contig end) belongs to the first / last bin
                            ds = min(max(ds, 0), dict(map(tuple, case['genome'])).get(refname, ds + 1) - 1)
                            if regs and not any(s_ <= ds < e_ for (c, s_, e_) in regs):
                                V('written-by-non-owning-job', name[0], read=lib.identity_of(qname), site=ds, job_regions=regs[:4], **ctx)
                multi = [k for k, v in owner.items() if len(v) > 1]
                if multi:
                    V('molecule-written-by-several-jobs', name[0], reads=sorted(multi)[:5], **ctx)
    return {'violations': viol, 'digest': log.digest(), 'probes': probes, 'faults': {}, 'evals': len(case['modes']), 'sigs': sigs,
            'steps': steps, 'sim_time': sim_time, 'nontrivial': any(s[1] for s in sigs), 'schedule_traces': traces, 'sets': {'delivery_orders': orders}}


def make_explicit(case, out):
    c = dict(case)
    c['modes'] = [dict(m, schedule={'policy': 'explicit', 'decisions': tr}) if m.get('mp') else dict(m)
                  for m, tr in zip(case['modes'], out['schedule_traces'])]
    return c


def sample_view(case, out):
    return {'params': case['params'], 'genome': case['genome'], 'fragments(first 5 of %d)' % len(case['workload']): case['workload'][:5], 'modes': case['modes']}


def LIST_PATHS(case):
    return [('workload',)]


def _shrink(case):
    ms = case['modes']
    # keep S plus one parallel mode
    if len(ms) > 2:
        for i in range(1, len(ms)):
            yield {**case, 'modes': [ms[0], ms[i]]}
    for i, m in enumerate(ms):
        if m.get('mp') and (m.get('width') != 1 or (m.get('schedule') or {}).get('policy') != 'fifo'):
            x = [dict(y) for y in ms]
            x[i]['width'] = 1
            x[i]['schedule'] = {'policy': 'fifo'}
            yield {**case, 'modes': x}
    if any(f.get('defect') or f.get('extra') or f.get('clip') for f in case['workload']):
        yield {**case, 'workload': [{**f, 'defect': None, 'extra': None, 'clip': 0} for f in case['workload']]}


SHRINKERS = (_shrink,)
