"""C20 - the status marker reports success only for a complete, sorted, indexed output.

Fault enumeration per sampled workload: a fault-free traced lifetime records the crash-point map
(every executed (function, line) of the pipeline functions); then one lifetime per
  * distinct (function, line) x occurrence class {first, second, middle, last-but-one, last}: os._exit there (true kill),
  * I/O seam x call-index class x applicable error (SamtoolsError / OSError ENOSPC, EIO): exception at the seam,
  * (multiprocess) worker exception / worker loss (before or after its work) inside each job,
  * (thorough) RLIMIT_FSIZE at 24 quantiles of the bytes written by the fault-free run (real EFBIG from the kernel),
from two initial states: empty output directory, and the leftovers of an earlier successful run (stale "All ok").
Oracle: if the status file says success then the output BAM exists, has an EOF block, scans to the end, is
coordinate sorted, has a usable index and equals the input's primary records; otherwise nothing is required.
"""
import collections
import os

from ..rng import Streams, weighted
from ..log import EventLog
from ..scratch import scratch
from ..gen import tagwork as tw, library as lib
from .. import pipeline as pl
from .. import tagcommon as tc

NAME = 'status'
PROPERTY = 'C20'
LEVEL = 'fault_enumeration'
RULE = ('A case is one seeded small library (4..40 fragments, 1..4 contigs, with unplaced/orphan/invalid fragments) x pipeline {single process, --multiprocess} '
        'x method {nla, chic} x initial state {empty directory, leftovers of a successful run, leftovers of a lifetime on another input}; for it the fault family is ENUMERATED from the crash-point map of '
        'a fault-free traced run: kill (os._exit) at every distinct executed (function,line) of the pipeline functions in every occurrence class '
        '{first, second, middle, last-but-one, last}; an exception at every I/O seam (pysam.sort/index/merge/idxstats, AlignmentFile.write/close, os.rename/remove, '
        'shutil.move/rmtree; fetch of the input: EIO or a failing allocation at a delivered record) in call-index classes {0,1,middle,last} with each applicable error; worker exception / loss in every job; SIGINT (KeyboardInterrupt inside the blocking next()) while the main process waits for result {0,1,middle,last,end}; thorough tier adds '
        'file-size limits (EFBIG) at 24 quantiles. evaluations = lifetimes under one fault. Non-trivial: the fault fired after the first record was written and '
        'before the lifetime would have ended (in-flight state); distinct = distinct (case, fault plan) signatures among those.')
ASSUMPTIONS = [
    'a kill is os._exit at a Python line boundary of the pipeline functions (page cache survives, htslib buffers are lost); power loss / fsync ordering is outside the statement',
    'exceptions are injected only where the environment can produce them (I/O seams), never at arbitrary lines',
    'a lost worker makes the consumer block for ever; the lifetime ends there (the operator kills the stuck job)',
    'the text of non-success messages, leftover temp files and a failed temp-folder cleanup followed by success are not flagged',
]
COMPONENTS = {'real': tc.TAGGER_REAL + ['write_status'],
              'stub': tc.TAGGER_STUB + ['crash injector: sys.settrace line events on the pipeline code objects, os._exit(137) in the forked child',
                                        'fault plan: proxy objects bound to the names pysam / os / shutil / move inside bamFunctions and bamtagmultiome; write-mode AlignmentFile wrapper',
                                        'SimPool worker exception / worker loss', 'RLIMIT_FSIZE in the forked child (thorough tier)']}
REQUIRED_PROBES = ['prior_lifetime_on_another_input', 'rerun_after_failure_succeeded', 'input_index_stale', 'baseline_success', 'kill_after_first_write', 'kill_during_post_processing', 'seam_fault_fired', 'worker_fault_fired', 'stale_success_initial_state', 'status_not_success_after_fault']
EXHAUSTIVE_NOTE = 'per sampled (workload, pipeline, method, initial state): all executed (function,line) sites x 5 occurrence classes, all seams x 4 call-index classes x errors, all jobs x 3 worker faults'
SLICES = 4
OCC = ['first', 'second', 'middle', 'last-but-one', 'last']
SEAM_ERRORS = {
    'pysam.sort': ['SamtoolsError', 'SamtoolsError+partial'], 'pysam.index': ['SamtoolsError'], 'pysam.merge': ['SamtoolsError', 'SamtoolsError+partial'], 'pysam.idxstats': ['SamtoolsError'],
    'AlignmentFile.read': ['OSError:EIO', 'MemoryError'], 'AlignmentFile.write': ['OSError:ENOSPC', 'OSError:EIO'], 'AlignmentFile.close': ['OSError:ENOSPC'],
    'os.rename': ['OSError:ENOSPC', 'OSError:EACCES'], 'os.remove': ['OSError:EACCES'], 'move': ['OSError:ENOSPC'], 'shutil.rmtree': ['OSError:EACCES'],
}


def plan(tier):
    if tier == 'quick':
        return {'runs': 32, 'budget_s': 20, 'chunk': 1, 'per_run_timeout': 900, 'min_s': 30}
    return {'runs': 640, 'budget_s': 480, 'chunk': 1, 'per_run_timeout': 1800, 'min_s': 60, 'selftest_n': 12}


def setup():
    tc.setup_imports()


def generate(seed, tier, index=None):
    st = Streams(seed)
    w = st.workload
    # rotate the configuration axis so that every combination is reached within 8 consecutive workloads
    h = int(seed[:8], 16) if index is None else index
    method = ['nla', 'chic'][h % 2]
    mp = bool((h >> 1) % 2)
    stale = bool((h >> 2) % 2)
    special = {3: 'tail-rejects', 6: 'placed-unmapped', 7: 'equal-length-large-contigs'}.get(h % 8)      # all are --multiprocess workloads
    genome = tw.genome(w, nmax=4)[:4]
    if special == 'equal-length-large-contigs':
        # every contig gets a job of its own (>= 100 kb) and two or three of them have exactly the same length
        ln = w.randint(100000, 140000)
        genome = [[f'ctg{i}', ln] for i in range(w.choice([2, 3]))] + ([['ctgS', w.randint(300, 3000)]] if w.random() < 0.5 else [])
    frags = tw.library(w, genome, method, n_target=w.randint(4, 40 if tier == 'thorough' else 24))
    if special == 'equal-length-large-contigs':
        for i, f in enumerate(frags[:2]):      # both twins carry reads
            f['ctg'] = i
        special = None if len(frags) < 2 else special
    no_rejects = w.random() < 0.3
    if tier == 'thorough' and index is not None and index % 40 == 11:
        # scaffold-rich assembly (more than 200 read-carrying small contigs) through the multiprocess pipeline; only a sample of the fault family is run
        genome, frags = tw.many_small_contigs(w, method, n=w.randint(205, 240))
        mp, special = True, 'many-small-contigs'
    elif tier == 'thorough' and index is not None and index % 40 == 23:
        # more than 64 contigs of 100 kb or more: every one gets a job and a per-job file of its own (the merge step then has 65+ inputs);
        # only the fault family around merge / sort / index / rename and a thin sample of kill points is run
        genome, frags = tw.many_small_contigs(w, method, n=w.randint(66, 90), length=(100000, 101000))
        mp, special = True, 'many-large-contigs'
    elif special in ('tail-rejects', 'placed-unmapped') and frags:
        # layouts in which a fault-free run must still deliver every record: a contig holding only placed-unmapped reads;
        # two small contigs sharing a job, the last of which holds only rejected fragments (with --no_rejects its task writes nothing)
        if special == 'tail-rejects':
            genome = [[f'sm{i}', w.randint(600, 3000)] for i in range(2)] + [['tail2', w.randint(300, 3000)]]
            for f in frags:
                f['ctg'] = f['ctg'] % 2
                clen = genome[f['ctg']][1]
                f['L'] = min(f['L'], clen // 4)
                f['site'] = w.randint(f['L'] + 8, clen - f['L'] - 8)
                f['clip'] = 0
            ci, kind_ = 2, 'qcfail'
            no_rejects = True
        else:
            ci, kind_ = w.randrange(len(genome)), 'placed_unmapped'
        o = dict(w.choice(frags))
        clen = genome[ci][1]
        o.update({'n': 1000 + len(frags), 'ctg': ci, 'L': min(o['L'], clen // 3), 'extra': None, 'clip': 0, 'defect': kind_})
        o['site'] = w.randint(o['L'] + 8, clen - o['L'] - 8)
        frags = [f for f in frags if f['ctg'] != ci] + [o]
    params = {'method': method, 'encoded': w.random() < 0.7, 'lib': 'LIB', 'stale': stale, 'tier': tier, 'no_rejects': no_rejects, 'special_layout': special,
              # the input's index was left over from an earlier version of the file (N simulated seconds older) in two of the eight rotations
              'index_state': ([['stale', 'stale-empty'][(h // 8 + h) % 2], w.choice([1, 30, 3600])] if h % 16 != 2 else ['no-unplaced-count']) if h % 8 in (2, 5) else None,
              # initial state: what a lifetime on ANOTHER input left in the same directory under the same -o (a library whose genome has a contig
              # beyond the 2^29 limit of BAI indices, CSI-indexed, with a read out there)
              'prior_other': h % 16 in (4, 9, 10)}
    if params['index_state'] == ['no-unplaced-count'] and frags:
        if not any(f.get('defect') == 'unplaced' for f in frags):
            frags[-1]['defect'] = 'unplaced'        # that index state only matters for reads without coordinates,
        if special != 'tail-rejects':
            params['no_rejects'] = False            # which a default run must keep
    mode = {'mp': mp, 'no_rejects': params['no_rejects'], 'isolation': 'fork' if (mp and (h >> 3) % 2) else 'inproc', 'name': 'multi' if mp else 'single', 'width': st.schedule.randint(1, 3), 'schedule': {'policy': 'seeded'}, 'seed': seed}
    return {'params': params, 'genome': genome, 'workload': frags, 'mode': mode}   # 'plans' absent -> enumerated by execute()


def enumerate_plans(crossings, seam_calls, njobs, mp, tier, bytes_written):
    plans = []
    by_site = collections.OrderedDict()
    for key in crossings:
        by_site[tuple(key)] = by_site.get(tuple(key), 0) + 1
    for (func, line), n in by_site.items():
        ks = {'first': 0, 'second': 1, 'middle': n // 2, 'last-but-one': n - 2, 'last': n - 1}
        seen = set()
        for occ in OCC:
            k = ks[occ]
            if k < 0 or k >= n or k in seen:
                continue
            seen.add(k)
            plans.append({'kind': 'crash', 'func': func, 'line': line, 'k': k, 'occ': occ})
    for seam, errs in SEAM_ERRORS.items():
        n = seam_calls.get(seam, 0)
        if n == 0:
            continue
        for nth in sorted({0, 1, n // 2, n - 1}):
            if 0 <= nth < n:
                for e in errs:
                    plans.append({'kind': 'fault', 'seam': seam, 'nth': nth, 'error': e})
    # persistent failure of the sort at every temp location (the retry loop in sort_and_index must give up loudly)
    n = seam_calls.get('pysam.sort', 0)
    for first in sorted({0, max(0, n - 1)}):
        if n:
            plans.append({'kind': 'fault3', 'seam': 'pysam.sort', 'nth': first, 'error': 'SamtoolsError'})
            plans.append({'kind': 'fault3', 'seam': 'pysam.sort', 'nth': first, 'error': 'SamtoolsError+partial'})
    if mp:
        for t in range(njobs):
            for wk in ('exception', 'lost-before', 'lost-after'):
                plans.append({'kind': 'worker', 'task': t, 'wkind': wk})
        # the operator presses Ctrl-C while the main process waits for its k-th result
        for t in sorted({0, 1, njobs // 2, max(0, njobs - 1), njobs}):
            plans.append({'kind': 'worker', 'task': t, 'wkind': 'interrupt'})
    if tier == 'thorough' and bytes_written:
        for q in range(1, 25):
            plans.append({'kind': 'fsize', 'q': q})       # limit = q/25 of the bytes the fault-free run wrote (computed at run time)
    return plans


def _mode_with(mode, plan, bytes_written=0):
    m = dict(mode)
    if plan['kind'] == 'crash':
        m['trace'] = 'kill'
        m['crash'] = {'func': plan['func'], 'line': plan['line'], 'k': plan['k']}
    elif plan['kind'] == 'fault':
        m['faults'] = [{'seam': plan['seam'], 'nth': plan['nth'], 'error': plan['error']}]
    elif plan['kind'] == 'fault3':
        m['faults'] = [{'seam': plan['seam'], 'nth': plan['nth'] + i, 'error': plan['error']} for i in range(3)]
    elif plan['kind'] == 'worker':
        m['worker_faults'] = [{'task': plan['task'], 'kind': plan['wkind']}]
    elif plan['kind'] == 'fsize':
        m['fsize'] = plan['bytes'] if 'bytes' in plan else max(1, bytes_written * plan['q'] // 25)
    return m


POST = {'sorted_bam_file', 'sort_and_index', 'add_readgroups_to_header', 'replace_bam_header', 'merge_bams'}


def execute(case):
    import shutil
    log = EventLog(case.get('run_seed'))
    p = case['params']
    mode = case['mode']
    viol, probes, sigs, faults = [], {}, [], {}
    steps = 0
    sim_time = 0.0
    vacuous = False

    def probe(k, n=1):
        probes[k] = probes.get(k, 0) + n

    with scratch(key=f"status/{case.get('run_seed')}/{case.get('slice')}/{len(case['workload'])}") as d:
        in_bam = tc.write_input(d, case)
        inp = pl.canonical_records(in_bam)
        P = [r for r in inp if not r['sec']]
        both = {i for i, c in collections.Counter(r['id'] for r in P).items() if c == 2}
        want = collections.Counter(tc.conservation_key(r, both) for r in P)
        prior_dir = None
        if p.get('prior_other') and case['workload']:
            import pysam
            g2 = [list(x) for x in case['genome']] + [['chrLong', 2 ** 29 + 20000]]
            lf = dict(case['workload'][0], n=9000, ctg=len(g2) - 1, site=2 ** 29 + 5000, defect=None, extra=None, clip=0, mol=9000, r2cig=None)
            pcase = dict(case, genome=g2, workload=[dict(f) for f in case['workload'][:3]] + [lf])
            pcase['params'] = dict(p, index_state=None, header_rgs=None)
            psrc = os.path.join(d, 'priorsrc')
            os.makedirs(psrc, exist_ok=True)
            try:
                tc.write_input(psrc, pcase)
            except pysam.SamtoolsError:
                pysam.index('-c', os.path.join(psrc, 'in.bam'))       # positions beyond 2^29 need a CSI index
            po = tc.run_mode(d, pcase, dict(mode, faults=[], isolation='inproc'), 'prior', in_bam=os.path.join(psrc, 'in.bam'))
            prior_dir = po['dir']
            probe('prior_lifetime_on_another_input')
            log.add('prior', po['status'], (po['res'].get('exception') or '').split(':')[0])
            os.makedirs(os.path.join(d, 'base'), exist_ok=True)
            shutil.rmtree(os.path.join(d, 'base'))
            shutil.copytree(prior_dir, os.path.join(d, 'base'))
        # ---- fault-free traced baseline: crash-point map, seam call counts
        # the crash-point map is recorded with in-process workers (lines executed inside forked workers are not visible to the tracer's owner)
        base = tc.run_mode(d, case, dict(mode, trace='record', faults=[], isolation='inproc'), 'base', in_bam=in_bam)
        if mode.get('isolation') == 'fork':
            probe('forked_worker_processes')
        bres = base['res']
        steps += bres.get('sched_steps', 0)
        log.add('baseline', base['status'], bres.get('exception'), len(bres.get('crossings') or []))
        if not base['ok']:
            vacuous = True
        else:
            probe('baseline_success')
            # the fault-free lifetime claims success too: it is held to the same standard
            bprob = pl.check_sorted_indexed(base['out'])
            bmis, bext = tc.conservation_diff(P, case['workload'], p['method'], p.get('no_rejects'), base.get('records') or [])
            if bprob or bmis or bext:
                viol.append({'property': PROPERTY, 'class': 'success-claimed-for-incomplete-output',
                             'signature': f"{mode['name']}/no-fault/{(bprob or ['records-differ'])[0]}",
                             'detail': {'plan': {'kind': 'none'}, 'mode': mode['name'], 'method': p['method'], 'no_rejects': p.get('no_rejects'), 'problems': bprob,
                                        'n_missing': sum(bmis.values()), 'n_extra': sum(bext.values()), 'missing_ids': sorted({k[0] for k in bmis})[:6]}})
        crossings = bres.get('crossings') or []
        # first crossing index after which a record has been written: first 'write_pysam'-side line is not in the watch-list, use the molecule loop lines
        bytes_written = 0
        for root, _, files in os.walk(base['dir']):
            for f in files:
                try:
                    bytes_written += os.path.getsize(os.path.join(root, f))
                except OSError:
                    pass
        plans = case.get('plans')
        if plans is None:
            plans = enumerate_plans(crossings, bres.get('seam_calls', {}), len(bres.get('jobs', [])), mode.get('mp'), p.get('tier', 'quick'), bytes_written)
        if p.get('special_layout') == 'many-large-contigs' and case.get('plans') is None:
            probe('more_than_64_per_job_files')
            plans = [x for x in plans if x['kind'] in ('fault', 'fault3') and x.get('seam') in ('pysam.merge', 'pysam.index', 'pysam.sort', 'os.rename', 'move') and x.get('nth', 0) in (0, 1)][:14] \
                + plans[::max(1, len(plans) // 6)]
        elif len(case['genome']) > 50 and case.get('plans') is None:
            plans = plans[::max(1, len(plans) // 24)]
        if case.get('slice') and case.get('plans') is None:     # slicing applies to the enumerated family only
            j, J = case['slice']
            plans = plans[j::J]
        if p.get('index_state'):
            probe('input_index_stale')
        stale_dir = None
        if prior_dir is not None:
            stale_dir = prior_dir
        elif p['stale'] and base['ok']:
            stale_dir = base['dir']
            probe('stale_success_initial_state')
        first_idx = {}
        for i, key in enumerate(crossings):
            first_idx.setdefault(tuple(key), i)
        for pi, plan in enumerate(plans):
            tag = f'p{pi}'
            sub = os.path.join(d, tag)
            if stale_dir is not None:   # leftovers of a previous successful run of the same input
                shutil.copytree(stale_dir, sub)
            m = _mode_with(mode, plan, bytes_written)
            if p.get('index_state'):
                tc.write_input(d, case)      # every lifetime starts from the same durable input state (the previous one repaired the index)
            try:
                o = tc.run_mode(d, case, m, tag, in_bam=in_bam)
            finally:
                pass
            res = o['res']
            steps += res.get('sched_steps', 0)
            sim_time += res.get('sim_time', 0.0)
            for k, c in (res.get('faults_fired') or {}).items():
                faults['seam:' + k] = faults.get('seam:' + k, 0) + c
                probe('seam_fault_fired', c)
            for k, c in (res.get('pool_fired') or {}).items():
                faults[k] = faults.get(k, 0) + c
                probe('worker_fault_fired', c)
            fired = bool(res.get('faults_fired') or res.get('pool_fired') or res.get('crashed_at') or (plan['kind'] == 'fsize' and (res.get('exception') or res.get('no_result'))))
            if res.get('crashed_at'):
                faults['kill'] = faults.get('kill', 0) + 1
                if plan['func'] in POST:
                    probe('kill_during_post_processing')
                if plan['func'] in ('tag_multiome_single_thread', 'run_tagging_task') and plan['k'] > 0:
                    probe('kill_after_first_write')
            if plan['kind'] == 'fsize' and fired:
                faults['EFBIG'] = faults.get('EFBIG', 0) + 1
            status = o['status']
            verdict = 'no-success-claimed'
            if status == pl.SUCCESS:
                verdict = 'success-and-complete'
                problems = pl.check_sorted_indexed(o['out'])
                detail = {'plan': plan, 'mode': mode['name'], 'method': p['method'], 'stale': p['stale'], 'died': res.get('crashed_at'), 'exception': res.get('exception')}
                if problems:
                    verdict = 'success-but-' + problems[0]
                    where = plan.get('func') or plan.get('seam') or plan.get('wkind') or plan['kind']
                    viol.append({'property': PROPERTY, 'class': 'success-claimed-for-incomplete-output',
                                 'signature': f"{mode['name']}/{plan['kind']}/{where}/{problems[0]}", 'detail': {**detail, 'problems': problems}})
                else:
                    try:
                        recs = pl.canonical_records(o['out'])
                        mis, ext = tc.conservation_diff(P, case['workload'], p['method'], p.get('no_rejects'), recs)
                        if mis or ext:
                            verdict = 'success-but-records-differ'
                            where = plan.get('func') or plan.get('seam') or plan.get('wkind') or plan['kind']
                            viol.append({'property': PROPERTY, 'class': 'success-claimed-for-incomplete-output',
                                         'signature': f"{mode['name']}/{plan['kind']}/{where}/records-differ",
                                         'detail': {**detail, 'n_missing': sum(mis.values()), 'n_extra': sum(ext.values())}})
                    except Exception as e:
                        verdict = 'success-but-unreadable'
                        viol.append({'property': PROPERTY, 'class': 'success-claimed-for-incomplete-output',
                                     'signature': f"{mode['name']}/{plan['kind']}/unreadable", 'detail': {**detail, 'error': repr(e)[:200]}})
            elif fired:
                probe('status_not_success_after_fault')
            exc = res.get('exception')
            if plan['kind'] == 'fsize' and exc:
                exc = exc.split(':')[0]      # the message names the file that hit the limit; a one-byte change of a header may move it
            log.add('plan', pi, plan, status, verdict, exc, res.get('crashed_at'))
            inflight = fired and not (plan['kind'] == 'crash' and first_idx.get((plan['func'], plan['line']), 0) < 3)
            sigs.append((f"{log.digest()[:16]}", bool(inflight)))
            # recovery: once the fault is over, the operator runs the same command again in the same directory (on top of whatever
            # the failed lifetime left behind: unsorted files, temp folders, a stale status). If THAT run reports success it is held to the
            # same standard; whether it succeeds at all is recorded as a probe only (liveness is not part of the statement)
            if fired and status != pl.SUCCESS and (pi % 6 == 0 or case.get('plans') is not None) and plan['kind'] != 'fsize':
                if p.get('index_state'):
                    tc.write_input(d, case)
                o2 = tc.run_mode(d, case, dict(mode), tag, in_bam=in_bam)
                steps += o2['res'].get('sched_steps', 0)
                probe('rerun_after_failure')
                if o2['status'] == pl.SUCCESS:
                    probe('rerun_after_failure_succeeded')
                    prob2 = pl.check_sorted_indexed(o2['out'])
                    try:
                        mis2, ext2 = tc.conservation_diff(P, case['workload'], p['method'], p.get('no_rejects'), pl.canonical_records(o2['out']) if not prob2 else [])
                    except Exception:
                        mis2, ext2, prob2 = {}, {}, prob2 or ['unreadable']
                    if prob2 or mis2 or ext2:
                        where = plan.get('func') or plan.get('seam') or plan.get('wkind') or plan['kind']
                        viol.append({'property': PROPERTY, 'class': 'success-claimed-for-incomplete-output',
                                     'signature': f"{mode['name']}/rerun-after-{plan['kind']}/{where}/{(prob2 or ['records-differ'])[0]}",
                                     'detail': {'plan': plan, 'mode': mode['name'], 'method': p['method'], 'rerun': True, 'problems': prob2,
                                                'n_missing': sum(mis2.values()) if mis2 else 0, 'n_extra': sum(ext2.values()) if ext2 else 0}})
                log.add('rerun', pi, o2['status'], o2['res'].get('exception'))
            shutil.rmtree(sub, ignore_errors=True)
    return {'violations': viol, 'digest': log.digest(), 'probes': probes, 'faults': faults, 'evals': len(sigs) + 1, 'sigs': sigs,
            'steps': steps, 'sim_time': sim_time, 'nontrivial': any(s[1] for s in sigs), 'vacuous': vacuous,
            'extra': {'crash_points_in_map': len(crossings), 'fault_plans_run': len(sigs)},
            'sets': {'crash_sites_function_line': [f'{a}:{b}' for (a, b) in first_idx], 'kill_points_function_line_occurrence': [f"{pl_['func']}:{pl_['line']}:{pl_['occ']}" for pl_ in plans if pl_['kind'] == 'crash']}}


def narrow(case, violation):
    """explicit single-fault case for minimisation / replay"""
    c = dict(case)
    c['plans'] = [violation['detail']['plan']] if violation['detail']['plan'].get('kind') != 'none' else []
    c.pop('slice', None)
    return c


def sample_view(case, out):
    return {'params': case['params'], 'mode': case['mode'], 'genome': case['genome'], 'fragments(first 4 of %d)' % len(case['workload']): case['workload'][:4],
            'plans': case.get('plans', 'enumerated from the crash-point map of the fault-free traced run')}


def LIST_PATHS(case):
    return [('workload',)]


SHRINKERS = ()
