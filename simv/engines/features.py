"""C16 - feature lookups return exactly the overlapping features after any add history.

Operation histories (add+ sort query*)+ on one or two long-lived FeatureContainers that
share the process-global lru_cache, checked operation by operation against a list model.
No fault or clock exists on this surface and none is pretended: the simulator owns the
*history* (what was asked before the last additions, how much other traffic evicted what).
"""
from ..rng import Streams, weighted
from ..log import EventLog

NAME = 'features'
PROPERTY = 'C16'
LEVEL = 'exploration'
RULE = ('A case is one seeded operation history over two FeatureContainers: rounds of add* / sort / query* where queries '
        'are point (findFeaturesAt), range (findFeaturesBetween) and aligned-read (findFeaturesAtPysamAlign method 0/1) '
        'lookups, a share of them exact repeats of queries issued in an earlier round (to hit the memo), interleaved with '
        'bursts of 0..1500 distinct queries on the other container (to churn the shared 512-entry LRU); in 15% of the rounds the '
        're-index is first INTERRUPTED (an exception delivered at the k-th executed line of sort(), k seeded) and then run again. Every query result is '
        'compared as a set with a brute-force list model. Non-trivial: the history has >=2 rounds on one container and at least '
        'one query repeated across an add+sort; distinct = distinct event-log digests among those.')
ASSUMPTIONS = [
    'results are compared as sets of feature tuples (order and multiplicity are not part of the statement)',
    'feature coordinates are non-negative integers with start <= end (closed intervals); query coordinates may be negative or far outside',
    'a query on a container with un-indexed additions is preceded by sort() by the harness (the statement\'s histories always re-index first), except point lookups marked lazy: findFeaturesAt re-indexes on demand and is expected to see the additions',
    'after an interrupted sort() nothing is claimed until sort() has been called again explicitly (the statement quantifies over histories, not over lookups on a half-built index)',
    'aligned blocks are half-open [start,end) as pysam defines them: a read overlaps a feature iff one of its aligned bases lies in the closed feature interval',
]
COMPONENTS = {
    'real': ['FeatureAnnotatedMolecule.annotate (method 0 blocks / method 1 per base) on base Fragment reads', 'singlecellmultiomics.features.FeatureContainer (addFeature, sort, findFeaturesAt all optim variants, findFeaturesBetween, findFeaturesAtPysamAlign)', 'functools.lru_cache shared by all instances', 'pysam.AlignedSegment'],
    'stub': ['interrupt injector: sys.settrace line events on FeatureContainer.sort, an exception raised at the k-th line'],
}
REQUIRED_PROBES = ['molecule_reannotated_after_reindex', 'reindex_interrupted', 'lazy_reindex_by_point_query', 'molecule_annotation', 'repeat_query_across_reindex', 'lru_churn_evicted', 'nonempty_result', 'read_query', 'nested_hit']


def plan(tier):
    if tier == 'quick':
        return {'runs': 6400, 'budget_s': 40, 'chunk': 40, 'per_run_timeout': 120}
    return {'runs': 1000000, 'budget_s': 540, 'chunk': 100, 'per_run_timeout': 240}


def setup():
    import singlecellmultiomics.features  # noqa
    import pysam  # noqa


CHROMS = ['chr1', 'chr2', 'chrX']
CIGAR_OPS = {'M': 0, 'I': 1, 'D': 2, 'N': 3, 'S': 4}


def _rand_features(w, n, span, chroms, tag=''):
    out = []
    for i in range(n):
        kind = w.random()
        c = w.choice(chroms)
        if out and kind < 0.15:          # identical duplicate (same tuple incl. name)
            out.append(list(w.choice(out)))
            continue
        if out and kind < 0.35:          # nested in / sharing a boundary with an earlier one
            o = w.choice(out)
            c = o[0]
            a = w.randint(o[1], o[2])
            b = w.randint(a, o[2])
            if w.random() < 0.3:
                a = o[1]
            if w.random() < 0.3:
                b = o[2]
        elif kind < 0.45:                 # zero length
            a = w.randint(0, span)
            b = a
        elif kind < 0.5:                  # very long
            a = w.randint(0, span // 4)
            b = a + w.randint(span // 2, span)
        else:
            a = w.randint(0, span)
            b = a + w.randint(0, max(1, span // 8))
        out.append([c, a, b, f'f{tag}.{len(out)}', w.choice(['+', '-', None])])
    return out


def _cigar(w):
    ops = []
    if w.random() < 0.3:
        ops.append(['S', w.randint(1, 4)])
    ops.append(['M', w.randint(1, 30)])
    for _ in range(w.choice([0, 0, 1, 2, 3])):
        ops.append([w.choice(['D', 'N', 'I']), w.randint(1, 25)])
        ops.append(['M', w.randint(1, 30)])
    if w.random() < 0.3:
        ops.append(['S', w.randint(1, 4)])
    return ops


def generate(seed, tier):
    st = Streams(seed)
    w = st.workload
    span = weighted(w, [(20, 2), (100, 4), (1000, 3), (100000, 1)])
    nchrom = w.choice([1, 1, 2, 3])
    chroms = CHROMS[:nchrom]
    rounds = weighted(w, [(1, 2), (2, 5), (3, 3), (w.randint(4, 7), 1)])
    ops = []
    issued = []   # earlier queries on container 0/1
    nfeat_total = 0
    for r in range(rounds):
        c = 0 if w.random() < 0.8 else 1
        nadd = weighted(w, [(1, 3), (w.randint(2, 8), 5), (w.randint(9, 40), 3), (w.randint(41, 200), 1)])
        nfeat_total += nadd
        for f in _rand_features(w, nadd, span, chroms, tag=str(r)):
            ops.append(['add', c] + f)
        lazy_first = w.random() < 0.25
        if lazy_first:
            # a point lookup right after the additions, WITHOUT an explicit sort(): findFeaturesAt re-indexes lazily and must already see the new features
            f0 = ops[-1]
            ops.append(['at', c, f0[2], w.randint(f0[3], f0[4]), None, 'bdbnb', 'lazy'])
        if w.random() < 0.15:
            # the re-index is interrupted (KeyboardInterrupt-like exception delivered at the k-th line of sort()) and then run again:
            # the second, complete re-index must leave no trace of the aborted one
            ops.append(['sort_abort', c, weighted(w, [(w.randint(0, 12), 3), (w.randint(13, 60), 2)])])
        ops.append(['sort', c])
        nq = weighted(w, [(w.randint(1, 6), 4), (w.randint(7, 40), 4), (w.randint(41, 200), 1)])
        for _ in range(nq):
            x = w.random()
            if issued and x < 0.4:
                q = list(w.choice(issued))
                q[1] = c if w.random() < 0.9 else q[1]
                ops.append(q)
                continue
            chrom = w.choice(chroms + ['chrNA']) if w.random() < 0.1 else w.choice(chroms)
            strand = w.choice([None, None, '+', '-'])
            pos = weighted(w, [(w.randint(0, span + span // 8 + 2), 10), (w.randint(-50, -1), 1), (span * 10 + w.randint(0, 100), 1)])
            if issued and w.random() < 0.25:
                # same start coordinate (and strand) as an earlier query but another kind / extent: results of different queries
                # that share a key in the memo must not contaminate each other
                o = w.choice(issued)
                chrom, strand = o[2], (o[4] if o[0] == 'at' else (o[5] if o[0] in ('between', 'read') else strand))
                pos = o[3]
                if w.random() < 0.5 and o[0] == 'between':
                    pos = o[4]
            if x < 0.7:
                q = ['at', c, chrom, pos, strand, w.choice(['bdbnb', 'bdbnb', 'bdbnb', 'nb', 'optim'])]
            elif x < 0.88:
                b = pos + weighted(w, [(0, 1), (w.randint(1, max(2, span // 6)), 5)])
                q = ['between', c, chrom, pos, b, strand]
            elif x < 0.95:
                q = ['read', c, chrom, max(0, pos), _cigar(w), strand, w.choice([0, 1])]
            else:
                # annotation of a molecule (1..2 reads) built on the same queries: FeatureAnnotatedMolecule.annotate(method 0: blocks, 1: per base)
                q = ['molecule', c, chrom, max(0, pos), [_cigar(w) for _ in range(w.choice([1, 2]))], None, w.choice([0, 1])]
            ops.append(q)
            issued.append(q)
        # churn the shared LRU through the other container
        if w.random() < 0.5:
            n = weighted(st.schedule, [(w.randint(1, 100), 3), (w.randint(400, 700), 3), (w.randint(701, 1500), 1)])
            ops.append(['churn', 1 - c, n, st.schedule.randint(0, 1000)])
    return {'params': {'span': span}, 'workload': ops}


def _model_at(feats, chrom, pos, strand):
    return {f for f in feats if f[0] == chrom and f[1] <= pos <= f[2] and (strand is None or f[4] == strand)}


def _model_between(feats, chrom, a, b, strand):
    return {f for f in feats if f[0] == chrom and max(a, f[1]) <= min(b, f[2]) and (strand is None or f[4] == strand)}


def _blocks(start, cigar):
    """aligned reference blocks (half open) and aligned reference positions of M ops"""
    pos = start
    blocks = []
    for op, ln in cigar:
        if op == 'M':
            blocks.append((pos, pos + ln))
            pos += ln
        elif op in ('D', 'N'):
            pos += ln
    # pysam merges nothing: get_blocks() returns one block per M run separated by D/N (I/S do not split... they do not move the reference)
    merged = []
    for b in blocks:
        if merged and merged[-1][1] == b[0]:
            merged[-1] = (merged[-1][0], b[1])
        else:
            merged.append(b)
    return blocks, merged


def execute(case):
    import pysam
    from singlecellmultiomics.features import FeatureContainer
    log = EventLog(case.get('run_seed'))
    for fn in ('findFeaturesAt', 'findNearestFeature'):      # start every history with an empty process-wide memo (if there is one)
        cc = getattr(getattr(FeatureContainer, fn, None), 'cache_clear', None)
        if cc:
            cc()
    cont = [FeatureContainer(), FeatureContainer()]
    model = [[], []]          # list of (chrom,start,end,name,strand)
    dirty = [False, False]
    epoch = [0, 0]
    asked = [{}, {}]          # query key -> epoch when last asked
    viol = []
    probes = {}
    faults = {}
    header = pysam.AlignmentHeader.from_dict({'HD': {'VN': '1.6'}, 'SQ': [{'SN': c, 'LN': 10 ** 8} for c in CHROMS + ['chrNA']]})

    def probe(k, n=1):
        probes[k] = probes.get(k, 0) + n

    broken = [False, False]
    aborted = [False, False]
    kept_molecules = {}

    class _Interrupt(BaseException):
        pass

    def aborted_sort(c, k):
        import sys
        seen = [0]

        def local(frame, event, arg):
            if event == 'line':
                seen[0] += 1
                if seen[0] > k:
                    raise _Interrupt()
            return local

        def glob(frame, event, arg):
            co = frame.f_code
            if co.co_name == 'sort' and co.co_filename.endswith('features.py'):
                return local
            return None
        old = sys.gettrace()
        sys.settrace(glob)
        try:
            cont[c].sort()
            return False
        except _Interrupt:
            return True
        except Exception as e:      # re-indexing must not fail on a legal feature set
            sys.settrace(old)
            broken[c] = True
            log.add('sort-raise', c, type(e).__name__)
            viol.append({'property': PROPERTY, 'class': 'reindex-raised', 'signature': type(e).__name__,
                         'detail': {'container': c, 'how': 'explicit', 'error': repr(e)[:200], 'n_features': len(model[c])}})
            return False
        finally:
            sys.settrace(old)

    def do_sort(c, how):
        try:
            cont[c].sort()
        except Exception as e:      # re-indexing must not fail on a legal feature set
            broken[c] = True
            log.add('sort-raise', c, type(e).__name__)
            viol.append({'property': PROPERTY, 'class': 'reindex-raised', 'signature': type(e).__name__,
                         'detail': {'container': c, 'how': how, 'error': repr(e)[:200], 'n_features': len(model[c])}})
        dirty[c] = False
        aborted[c] = False
        epoch[c] += 1

    def ensure_sorted(c):
        if dirty[c]:
            do_sort(c, 'implicit')
            log.add('sort', c, 'implicit')

    def check(opi, op, got, want):
        got = {tuple(g) for g in got} if op[0] == 'molecule' else {(op[2],) + tuple(g[:4]) for g in got}
        log.add('q', opi, op[0], sorted(map(repr, got)))
        if want:
            probe('nonempty_result')
        if len(want) >= 2:
            probe('nested_hit')
        if got != want:
            key = repr(op)
            stale = key in asked[op[1]] and asked[op[1]][key] < epoch[op[1]]
            extra, missing = got - want, want - got
            viol.append({'property': PROPERTY, 'class': 'wrong-result',
                         'signature': f"{op[0]}{'/' + str(op[5]) if op[0] == 'at' else ''}{'/method' + str(op[6]) if op[0] == 'read' else ''}/"
                                      f"{'repeated-across-reindex' if stale else ('after-reindex' if epoch[op[1]] > 1 else 'fresh-container')}/"
                                      f"{'missing' if missing else ''}{'extra' if extra else ''}",
                         'detail': {'op_index': opi, 'op': op, 'missing': sorted(map(repr, missing))[:5], 'extra': sorted(map(repr, extra))[:5],
                                    'epoch': epoch[op[1]]}})

    for opi, op in enumerate(case['workload']):
        kind, c = op[0], op[1]
        if kind == 'add':
            _, _, chrom, a, b, name, strand = op
            cont[c].addFeature(chrom, a, b, name, strand=strand, data=name)
            model[c].append((chrom, a, b, name, strand))
            dirty[c] = True
            log.add('add', c, chrom, a, b, name, strand)
        elif kind == 'sort':
            if model[c]:
                do_sort(c, 'explicit')
            log.add('sort', c)
        elif kind == 'sort_abort':
            if model[c] and not broken[c]:
                hit = aborted_sort(c, op[2])
                log.add('sort_abort', c, op[2], hit)
                if hit:
                    probe('reindex_interrupted')
                    faults['reindex_interrupted'] = faults.get('reindex_interrupted', 0) + 1
                    aborted[c] = True
                    dirty[c] = True       # nothing is claimed about lookups until the re-index has been run again (explicitly)
                else:
                    dirty[c] = False
                    epoch[c] += 1
        elif kind == 'churn':
            if not model[c]:
                cont[c].addFeature('chr1', 0, 10, 'churn', strand=None, data='churn')
                model[c].append(('chr1', 0, 10, 'churn', None))
                dirty[c] = True
            ensure_sorted(c)
            if broken[c]:
                continue
            ci_ = getattr(FeatureContainer.findFeaturesAt, 'cache_info', None)
            before = ci_() if ci_ else None
            try:
                for i in range(op[2]):
                    cont[c].findFeaturesAt('chr1', op[3] * 7919 + i, None)
            except Exception as e:      # a lookup must answer, not raise
                log.add('churn-raise', opi, type(e).__name__)
                viol.append({'property': PROPERTY, 'class': 'query-raised', 'signature': f'at/{type(e).__name__}',
                             'detail': {'op_index': opi, 'op': op, 'error': repr(e)[:200]}})
                continue
            after = ci_() if ci_ else None
            if before is None or before.currsize + (after.misses - before.misses) > 512:
                probe('lru_churn_evicted')
            log.add('churn', c, op[2])
        else:
            if not model[c]:
                continue
            if len(op) > 6 and op[6] == 'lazy' and kind == 'at' and aborted[c]:
                ensure_sorted(c)
                op = op[:6]
            elif len(op) > 6 and op[6] == 'lazy' and kind == 'at':
                if dirty[c]:
                    probe('lazy_reindex_by_point_query')
                    dirty[c] = False        # the lookup itself re-indexes
                    epoch[c] += 1
                op = op[:6]
            else:
                ensure_sorted(c)
            if broken[c]:
                continue
            key = repr(op)
            if key in asked[c] and asked[c][key] < epoch[c]:
                probe('repeat_query_across_reindex')
            try:
                if kind == 'at':
                    _, _, chrom, pos, strand, optim = op
                    got = cont[c].findFeaturesAt(chrom, pos, strand, optim) if optim != 'bdbnb' else cont[c].findFeaturesAt(chrom, pos, strand)
                    want = _model_at(model[c], chrom, pos, strand)
                elif kind == 'between':
                    _, _, chrom, a, b, strand = op
                    got = cont[c].findFeaturesBetween(chrom, a, b, strand)
                    want = _model_between(model[c], chrom, a, b, strand)
                elif kind == 'molecule':
                    from singlecellmultiomics.molecule import FeatureAnnotatedMolecule
                    from singlecellmultiomics.fragment import Fragment
                    _, _, chrom, start, cigars, strand, method = op
                    reads = []
                    want = set()
                    off = 0
                    for ci_, cigar in enumerate(cigars):
                        seg = pysam.AlignedSegment(header)
                        seg.query_name = 'm'
                        seg.query_sequence = 'A' * sum(l for o, l in cigar if o in 'MIS')
                        seg.flag = 0
                        seg.reference_id = header.get_tid(chrom)
                        seg.reference_start = start + off
                        seg.mapping_quality = 60
                        seg.cigartuples = [(CIGAR_OPS[o], l) for o, l in cigar]
                        seg.set_tag('SM', 'cell')
                        seg.set_tag('RX', 'ACG')
                        reads.append(seg)
                        for (a_, b_) in _blocks(start + off, cigar)[0]:
                            want |= _model_between(model[c], chrom, a_, b_ - 1, None)
                        off += 7
                    mkey = (c, chrom, start, repr(cigars), method)
                    if mkey in kept_molecules:
                        # the SAME molecule object is annotated again (tools re-annotate after loading further features): the answer must follow the index
                        mol, ep_ = kept_molecules[mkey]
                        if ep_ < epoch[c]:
                            probe('molecule_reannotated_after_reindex')
                    else:
                        mol = FeatureAnnotatedMolecule(Fragment([reads[0], None]), features=cont[c], stranded=None)
                        for extra_read in reads[1:]:
                            mol._add_fragment(Fragment([extra_read, None]))
                    kept_molecules[mkey] = (mol, epoch[c])
                    mol.annotate(method=method)
                    got_names = set(mol.hits.keys())
                    got = []
                    probe('molecule_annotation')
                else:
                    _, _, chrom, start, cigar, strand, method = op
                    seg = pysam.AlignedSegment(header)
                    seg.query_name = 'r'
                    qlen = sum(l for o, l in cigar if o in 'MIS')
                    seg.query_sequence = 'A' * qlen
                    seg.flag = 0
                    seg.reference_id = header.get_tid(chrom)
                    seg.reference_start = start
                    seg.mapping_quality = 60
                    seg.cigartuples = [(CIGAR_OPS[o], l) for o, l in cigar]
                    got = cont[c].findFeaturesAtPysamAlign(seg, strand=strand, method=method)
                    blocks, merged = _blocks(start, cigar)
                    want = set()
                    for (a, b) in blocks:
                        want |= _model_between(model[c], chrom, a, b - 1, strand)
                    probe('read_query')
                if kind == 'molecule':
                    got = {f for f in model[c] if f[3] in got_names and f[0] == chrom}
                check(opi, op, got, want)
            except Exception as e:  # a lookup must answer, not raise
                log.add('q-raise', opi, type(e).__name__)
                viol.append({'property': PROPERTY, 'class': 'query-raised', 'signature': f'{kind}/{type(e).__name__}',
                             'detail': {'op_index': opi, 'op': op, 'error': repr(e)[:200]}})
            asked[c][key] = epoch[c]
    rep = probes.get('repeat_query_across_reindex', 0)
    return {'violations': viol, 'digest': log.digest(), 'probes': probes, 'faults': faults,
            'steps': log.n, 'nontrivial': rep > 0 and max(epoch) >= 2, 'sig': log.digest()}


def sample_view(case, out):
    return {'params': case['params'], 'ops(first 25 of %d)' % len(case['workload']): case['workload'][:25]}


def LIST_PATHS(case):
    return [('workload',)]


def _shrink(case):
    ops = case['workload']
    # shrink churn sizes and coordinates
    for i, op in enumerate(ops):
        if op[0] == 'churn' and op[2] > 1:
            for n in (0, op[2] // 2):
                c = [list(o) for o in ops]
                c[i][2] = n
                yield {**case, 'workload': c}


SHRINKERS = (_shrink,)
