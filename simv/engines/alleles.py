"""C18 - allele lookups agree with the VCF in every loading mode.

A history is a sequence of process lifetimes over one VCF; only the on-disk cache
directory survives between lifetimes.  Each lifetime = (lazyLoad, use_cache, select_samples,
ignore_conversions, phased) + an access sequence (contig order incl. returning to an
evicted contig, absent contigs/positions).  Real: AlleleResolver end to end, pysam VCF/tabix,
real cache files in scratch.  Stub: none.
"""
import os

from ..rng import Streams, weighted
from ..log import EventLog
from ..scratch import scratch

NAME = 'alleles'
PROPERTY = 'C18'
LEVEL = 'exploration'
RULE = ('A case is one seeded bgzipped+tabix-indexed VCF (1..4 contigs, 1..4 samples (some names with a blank), biallelic/multi-allelic SNVs, multi-base alleles, '
        'missing genotypes, phased/unphased, monomorphic sites) and a history of 1..4 lifetimes sharing the cache directory; each lifetime '
        'draws (lazyLoad,use_cache) from all four combinations, an access sequence over (contig,position,base) incl. absent positions, absent '
        'contigs and revisits of evicted contigs; in some histories select_samples / ignore_conversions / phased differ between lifetimes '
        '(the cache must not leak across configurations). Oracle: every answer of getAllelesAt/has_location equals the eager cache-less '
        'resolver built with that lifetime\'s configuration, and a VCF model on clear-cut sites. evaluations = lifetimes executed. '
        'Non-trivial: a lifetime that read a cache file written by an earlier lifetime, or revisited an evicted contig, or ran with '
        'use_cache and not lazyLoad; distinct = distinct (history prefix) digests among those.')
ASSUMPTIONS = [
    'VCFs are well formed, bgzipped and tabix-indexed (the non-indexed "ugly" parser is outside the statement)',
    'the only faults injected are a kill at a line of write_cache or a file-size limit (EFBIG) during a cache-writing lifetime: the statement promises that later runs reading the cache agree with the VCF, and only durable state survives a lifetime; read errors on the cache are not injected',
    'sample names are plain identifiers (no commas or dashes), positions are unique per contig',
    'the sentinel position -1 is never queried',
]
COMPONENTS = {
    'real': ['Molecule.allele (likelihood assignment, the DA tag) of one-read molecules tagged with the resolver under test', 'AlleleResolver.__init__ flag handling', 'fetchChromosome', 'write_cache/read_cached', 'getAllelesAt', 'has_location', 'pysam.VariantFile/tabix', 'cache files on a real file system (scratch)'],
    'stub': ['transient EMFILE on the n-th open of a cache file for reading (alleleTools.gzip seam)', 'crash injector for cache-writing lifetimes: forked child, sys.settrace line events inside write_cache with os._exit(137), or RLIMIT_FSIZE'],
}
REQUIRED_PROBES = ['answer_at_site_with_missing_genotype', 'sample_name_with_blank', 'molecule_tagged', 'lookup_hit_by_cache_read_fault', 'lifetime_died_while_writing_cache', 'cache_file_read_in_later_lifetime', 'evicted_contig_revisited', 'cache_without_lazy', 'absent_contig_query', 'nonempty_answer', 'config_changed_between_lifetimes']
BASES = 'ACGT'


def plan(tier):
    if tier == 'quick':
        return {'runs': 12000, 'budget_s': 45, 'chunk': 25, 'per_run_timeout': 300}
    return {'runs': 1200000, 'budget_s': 540, 'chunk': 20, 'per_run_timeout': 600}


def setup():
    import singlecellmultiomics.alleleTools  # noqa


def _gt(w, nalt, phased):
    sep = '|' if phased else '/'
    x = w.random()
    if x < 0.1:
        return './.' if not phased else '.|.'
    if x < 0.15:
        return '.'
    a = w.randint(0, nalt)
    b = a if w.random() < 0.6 else w.randint(0, nalt)
    y = w.random()
    if y < 0.05:
        return f'{a}{sep}.'
    if y < 0.1:
        return f'.{sep}{b}'
    return f'{a}{sep}{b}'


def generate(seed, tier):
    st = Streams(seed)
    w = st.workload
    nctg = w.choice([1, 2, 2, 3, 4])
    nsamp = w.choice([1, 2, 2, 3, 4])
    # sample names are free text in a VCF header (tab separated): some carry a blank
    blank = w.random() < 0.3
    samples = [(f'donor {i + 1}' if blank and w.random() < 0.7 else f'S{i + 1}') for i in range(nsamp)]
    contigs = [[f'c{i + 1}', 1000] for i in range(nctg)]
    records = []
    for ci in range(nctg):
        nrec = weighted(w, [(0, 1), (w.randint(1, 4), 4), (w.randint(5, 15), 3)])
        poss = sorted(w.sample(range(1, 60), min(nrec, 50)))
        for p in poss:
            ref = w.choice(BASES)
            x = w.random()
            if x < 0.7:
                alts = [w.choice([b for b in BASES if b != ref])]
            elif x < 0.85:
                alts = w.sample([b for b in BASES if b != ref], 2)
            elif x < 0.93:
                alts = [ref + w.choice(BASES)]            # insertion
            else:
                ref = ref + w.choice(BASES)               # deletion
                alts = [ref[0]]
            phased = w.random() < 0.5
            gts = [_gt(w, len(alts), phased) for _ in samples]
            records.append([ci, p, ref, alts, gts])
    convs = [None, None, [['C', 'T'], ['G', 'A']], [[w.choice(BASES), w.choice(BASES)]]]
    base_cfg = {
        'select': weighted(w, [(None, 3), (sorted(w.sample(samples, w.randint(1, nsamp))), 2)]),
        'ignore': w.choice(convs),
        'phased': w.random() < 0.85,
    }
    nlife = weighted(w, [(1, 2), (2, 4), (3, 3), (4, 1)])
    vary = w.random() < 0.35
    lifetimes = []
    h = st.schedule
    for li in range(nlife):
        cfg = dict(base_cfg)
        if vary and li > 0:
            k = w.choice(['select', 'ignore', 'phased'])
            if k == 'select':
                cfg['select'] = weighted(w, [(None, 1), (sorted(w.sample(samples, w.randint(1, nsamp))), 2)])
            elif k == 'ignore':
                cfg['ignore'] = w.choice(convs)
            else:
                cfg['phased'] = not cfg['phased']
        lazy, cache = h.choice([(False, False), (True, False), (True, True), (True, True), (False, True)])
        # access sequence: contig visiting order with revisits
        order = []
        for _ in range(h.randint(1, 2 * nctg + 1)):
            order.append(h.randrange(nctg) if h.random() < 0.9 else -1)
        queries = []
        for ci in order:
            if ci == -1:
                queries.append(['cX', h.randint(0, 60), h.choice(BASES), h.choice(['get', 'has'])])
                continue
            sites = [r for r in records if r[0] == ci]
            for _ in range(h.randint(1, 6)):
                if sites and h.random() < 0.75:
                    r = h.choice(sites)
                    pos0 = r[1] - 1 + h.choice([0, 0, 0, 0, 1, -1])
                    base = h.choice([r[2][0]] + [a[0] for a in r[3]] + list(BASES))
                else:
                    pos0 = h.randint(0, 70)
                    base = h.choice(BASES)
                queries.append([contigs[ci][0], max(0, pos0), base, h.choice(['get', 'get', 'has'])])
            if sites and h.random() < 0.3:
                # a molecule (one read) tagged with this resolver: the DA tag is built on the same lookups, and tagging must not change the table
                r0 = h.choice(sites)
                start = max(0, r0[1] - 1 - h.randint(0, 6))
                seq = ''.join(h.choice(BASES) for _ in range(h.randint(8, 25)))
                near = [r for r in sites if start <= r[1] - 1 < start + len(seq)]
                sl = list(seq)
                for r in near:
                    sl[r[1] - 1 - start] = h.choice([r[2][0]] + [a[0] for a in r[3]])
                queries.append([contigs[ci][0], start, ''.join(sl), 'mol'])
        lifetimes.append({'lazy': lazy, 'cache': cache, **cfg, 'queries': queries})
    for life in lifetimes:
        if life['cache'] and st.faults.random() < 0.25:
            # transient failure (EMFILE) of the n-th open of a cache file for reading; the lookup that hits it may come back empty,
            # every later lookup must be right again
            life['read_fault'] = st.faults.randint(0, 2)
    if st.faults.random() < 0.3:
        # a lifetime that dies (kill at a line of write_cache) or hits a file-size limit (EFBIG) WHILE it writes the cache;
        # only what is on disk survives; the lifetimes after it must still answer like the eager resolver
        i = st.faults.randrange(len(lifetimes))
        victim = dict(lifetimes[i], lazy=True, cache=True)
        victim['crash'] = st.faults.choice([{'kind': 'kill', 'k': st.faults.randint(0, 12)}, {'kind': 'fsize', 'bytes': st.faults.choice([1, 20, 40, 64, 100])}])
        lifetimes.insert(i, victim)
        lifetimes.insert(i + 1, dict(lifetimes[i + 1], lazy=True, cache=True))
    return {'params': {}, 'vcf': {'contigs': contigs, 'samples': samples, 'records': records}, 'lifetimes': lifetimes}


def write_vcf(path, vcf):
    import pysam
    lines = ['##fileformat=VCFv4.2']
    for c, l in vcf['contigs']:
        lines.append(f'##contig=<ID={c},length={l}>')
    lines.append('##FORMAT=<ID=GT,Number=1,Type=String,Description="Genotype">')
    lines.append('#CHROM\tPOS\tID\tREF\tALT\tQUAL\tFILTER\tINFO\tFORMAT\t' + '\t'.join(vcf['samples']))
    for ci, pos, ref, alts, gts in sorted(vcf['records'], key=lambda r: (r[0], r[1])):
        lines.append('\t'.join([vcf['contigs'][ci][0], str(pos), '.', ref, ','.join(alts), '42', 'PASS', '.', 'GT'] + gts))
    with open(path, 'w') as f:
        f.write('\n'.join(lines) + '\n')
    pysam.tabix_compress(path, path + '.gz', force=True)
    pysam.tabix_index(path + '.gz', preset='vcf', force=True)
    return path + '.gz'


def _norm(x):
    if x is None:
        return None
    if isinstance(x, bool):
        return x
    return sorted(x)


def _model(vcf, cfg, chrom, pos0, base):
    """answer the statement prescribes, for every site class it pins down; 'unknown' where it does not
    (a selected sample without a genotype: the code keeps such "monomorphic" sites by design)"""
    names = {c: i for i, (c, _) in enumerate(vcf['contigs'])}
    if chrom not in names:
        return None
    recs = [r for r in vcf['records'] if r[0] == names[chrom] and r[1] - 1 == pos0]
    if not recs:
        return None         # position absent from the VCF (a multi-base record elsewhere never occupies another position)
    ci, pos, ref, alts, gts = recs[0]
    alleles = [ref] + list(alts)
    if not cfg['phased']:
        # unphased mode labels the alleles of a single-nucleotide site U, V, W ...; anything else is not a single-nucleotide site
        if not all(len(a) == 1 for a in alleles):
            return None
        carried = {}
        for letter, a in zip('UVWXYZ', alleles):
            carried.setdefault(a, set()).add(letter)
    else:
        sel = cfg['select'] or vcf['samples']
        carried = {}
        multibase_carried = False
        for s_, gt in zip(vcf['samples'], gts):
            if s_ not in sel:
                continue
            if '.' in gt:
                return 'unknown'
            for a in gt.replace('|', '/').split('/'):
                al = alleles[int(a)]
                if len(al) == 1:
                    carried.setdefault(al, set()).add(s_)
                else:
                    multibase_carried = True
        if multibase_carried:
            return None     # a selected sample carries a multi-base allele here: not a single-nucleotide site
        if len(carried) < 2:
            return None     # uninformative: every selected sample shows the same base
    if cfg['ignore'] and any([ref, b] in cfg['ignore'] for b in carried):
        return None
    return sorted(carried.get(base)) if base in carried else None


def _containing(vcf, cfg, chrom, pos0, base):
    """phased mode: the selected samples whose (possibly half-called) genotype at this record contains the single base `base`"""
    names = {c: i for i, (c, _) in enumerate(vcf['contigs'])}
    recs = [r for r in vcf['records'] if chrom in names and r[0] == names[chrom] and r[1] - 1 == pos0]
    if not recs:
        return None
    ci, pos, ref, alts, gts = recs[0]
    alleles = [ref] + list(alts)
    sel = cfg['select'] or vcf['samples']
    out = set()
    for s_, gt in zip(vcf['samples'], gts):
        if s_ in sel and any(a != '.' and alleles[int(a)] == base for a in gt.replace('|', '/').split('/')):
            out.add(s_)
    return sorted(out)


def _molecule_allele(ar, ref, vcf, chrom, start, seq):
    """(allele assigned to a one-read molecule tagged with `ar`, expected allele from read-only lookups on the eager reference)"""
    import pysam
    import collections
    from singlecellmultiomics.molecule import Molecule
    from singlecellmultiomics.fragment import Fragment
    header = pysam.AlignmentHeader.from_dict({'HD': {'VN': '1.6'}, 'SQ': [{'SN': c, 'LN': l} for c, l in vcf['contigs']] + [{'SN': 'cX', 'LN': 1000}]})
    r = pysam.AlignedSegment(header)
    r.query_name = 'm'
    r.query_sequence = seq
    r.query_qualities = pysam.qualitystring_to_array('I' * len(seq))
    r.flag = 0
    r.reference_id = header.get_tid(chrom)
    r.reference_start = start
    r.mapping_quality = 60
    r.cigartuples = [(0, len(seq))]
    r.set_tag('SM', 'cell')
    r.set_tag('RX', 'ACG')
    m = Molecule(Fragment([r, None]), allele_resolver=ar)
    got = m.allele
    score = collections.Counter()
    for i, b in enumerate(seq):
        hit = ref.getAllelesAt(chrom, start + i, b)
        if hit is not None and len(hit) == 1:
            score[sorted(hit)[0]] += 1
    if not score:
        return got, None
    top = score.most_common()
    if len(top) > 1 and top[0][1] == top[1][1]:
        return got, 'ambiguous'
    return got, top[0][0]


def _crashing_lifetime(path, cfg, life, mk):
    """run one lifetime in a forked child that is killed inside write_cache (k-th line) or runs under RLIMIT_FSIZE"""
    import sys
    pid = os.fork()
    if pid == 0:
        try:
            dn = os.open(os.devnull, os.O_WRONLY)
            os.dup2(dn, 1)
            os.dup2(dn, 2)
            c = life['crash']
            if c['kind'] == 'fsize':
                import resource
                import signal
                signal.signal(signal.SIGXFSZ, signal.SIG_IGN)
                resource.setrlimit(resource.RLIMIT_FSIZE, (c['bytes'], c['bytes']))
            else:
                n = [0]

                def local(frame, event, arg):
                    if event == 'line':
                        if n[0] == c['k']:
                            os._exit(137)
                        n[0] += 1
                    return local

                def glob(frame, event, arg):
                    return local if frame.f_code.co_name == 'write_cache' else None
                sys.settrace(glob)
            ar = mk(path, cfg, True, True)
            for (chrom, pos, base, kind) in life['queries']:
                try:
                    ar.getAllelesAt(chrom, pos, base) if kind == 'get' else ar.has_location(chrom, pos)
                except Exception:
                    pass
        finally:
            os._exit(0)
    os.waitpid(pid, 0)


def execute(case):
    import io
    import contextlib
    from singlecellmultiomics.alleleTools import AlleleResolver
    log = EventLog(case.get('run_seed'))
    vcf = case['vcf']
    viol, probes, sigs = [], {}, []
    faults_fired = {}

    def probe(k, n=1):
        probes[k] = probes.get(k, 0) + n

    if any(' ' in x for x in case['vcf']['samples']):
        probe('sample_name_with_blank')

    def mk(path, cfg, lazy, cache):
        return AlleleResolver(path, lazyLoad=lazy, use_cache=cache, phased=cfg['phased'],
                              select_samples=list(cfg['select']) if cfg['select'] is not None else None,
                              ignore_conversions={tuple(x) for x in cfg['ignore']} if cfg['ignore'] is not None else None)

    sink = io.StringIO()
    with scratch() as d, contextlib.redirect_stdout(sink):
        path = write_vcf(os.path.join(d, 'v.vcf'), vcf)
        cache_dir = f'{os.path.abspath(path)}_allele_cache/'
        refs = {}
        prev_cfg = None
        for li, life in enumerate(case['lifetimes']):
            cfg = {'select': life['select'], 'ignore': life['ignore'], 'phased': life['phased']}
            ck = repr(sorted(cfg.items(), key=str))
            if ck not in refs:
                try:
                    refs[ck] = mk(path, cfg, False, False)      # eager, cache-less reference of this configuration
                except Exception as e:
                    viol.append({'property': PROPERTY, 'class': 'constructor-raised', 'signature': 'eager/' + type(e).__name__,
                                 'detail': {'lifetime': li, 'config': cfg, 'error': repr(e)[:200]}})
                    log.add('life', li, 'eager-ctor-raised')
                    continue
            ref = refs[ck]
            if prev_cfg is not None and prev_cfg != ck:
                probe('config_changed_between_lifetimes')
            prev_cfg = ck
            cache_before = set(os.listdir(cache_dir)) if os.path.isdir(cache_dir) else set()
            if life['cache'] and not life['lazy']:
                probe('cache_without_lazy')
            if life.get('crash'):
                _crashing_lifetime(path, cfg, life, mk)
                probe('lifetime_died_while_writing_cache')
                faults_fired[life['crash']['kind']] = faults_fired.get(life['crash']['kind'], 0) + 1
                log.add('life', li, 'crashed', life['crash'])
                continue
            try:
                ar = mk(path, cfg, life['lazy'], life['cache'])
            except Exception as e:
                viol.append({'property': PROPERTY, 'class': 'constructor-raised', 'signature': type(e).__name__,
                             'detail': {'lifetime': li, 'config': {k: life[k] for k in ('lazy', 'cache', 'select', 'ignore', 'phased')}, 'error': repr(e)[:200]}})
                log.add('life', li, 'ctor-raised')
                continue
            visited = []
            used_cache = False
            revisit = False
            import singlecellmultiomics.alleleTools.alleleTools as at_mod
            real_gzip = at_mod.gzip
            fault_state = {'n': 0, 'fired_now': False}
            if life.get('read_fault') is not None:
                class _Gz:
                    def __getattr__(self, name):
                        return getattr(real_gzip, name)

                    @staticmethod
                    def open(path, mode='rb', *a, **k):
                        if 'r' in mode:
                            i = fault_state['n']
                            fault_state['n'] += 1
                            if i == life['read_fault']:
                                fault_state['fired_now'] = True
                                faults_fired['cache-read-EMFILE'] = faults_fired.get('cache-read-EMFILE', 0) + 1
                                raise OSError(24, 'Too many open files (injected)', path)
                        return real_gzip.open(path, mode, *a, **k)
                at_mod.gzip = _Gz()
            for qi, (chrom, pos, base, kind) in enumerate(life['queries']):
                fault_state['fired_now'] = False
                if chrom == 'cX':
                    probe('absent_contig_query')
                if visited and chrom != visited[-1] and chrom in visited:
                    revisit = True
                if not visited or visited[-1] != chrom:
                    visited.append(chrom)
                try:
                    if kind == 'mol':
                        got, want = _molecule_allele(ar, ref, vcf, chrom, pos, base)
                        probe('molecule_tagged')
                    elif kind == 'get':
                        got = _norm(ar.getAllelesAt(chrom, pos, base))
                        want = _norm(ref.getAllelesAt(chrom, pos, base))
                    else:
                        got = ar.has_location(chrom, pos)
                        want = ref.has_location(chrom, pos)
                except Exception as e:
                    viol.append({'property': PROPERTY, 'class': 'lookup-raised', 'signature': f'{kind}/{type(e).__name__}',
                                 'detail': {'lifetime': li, 'query': [chrom, pos, base, kind], 'error': repr(e)[:200]}})
                    log.add('q', li, qi, 'raised')
                    continue
                log.add('q', li, qi, got)
                if fault_state['fired_now']:
                    probe('lookup_hit_by_cache_read_fault')
                    continue        # the lookup that met the transient failure may come back empty (the error is printed and swallowed by design)
                if kind == 'mol' and want == 'ambiguous':
                    continue
                if got:
                    probe('nonempty_answer')
                mode = ('cache' if life['cache'] else 'nocache') + ('+lazy' if life['lazy'] else '+eager')
                if got != want:
                    first = not any(f.startswith(chrom) for f in cache_before)
                    viol.append({'property': PROPERTY, 'class': 'mode-disagrees-with-eager',
                                 'signature': f"{kind}/{mode}/{'absent-contig' if chrom == 'cX' else ('cache-written-this-lifetime' if (life['cache'] and first) else ('cache-from-earlier-lifetime' if life['cache'] else 'no-cache'))}",
                                 'detail': {'lifetime': li, 'query': [chrom, pos, base, kind], 'got': got, 'eager': want,
                                            'config': {k: life[k] for k in ('lazy', 'cache', 'select', 'ignore', 'phased')}}})
                if kind == 'get':
                    m = _model(vcf, cfg, chrom, pos, base)
                    if m != 'unknown' and want != m:
                        viol.append({'property': PROPERTY, 'class': 'eager-disagrees-with-vcf-model', 'signature': 'get',
                                     'detail': {'lifetime': li, 'query': [chrom, pos, base, kind], 'eager': want, 'model': m}})
                    elif m == 'unknown' and cfg['phased'] and isinstance(want, list):
                        # a selected sample lacks (part of) its genotype: whether the site is kept is not pinned down, but an answer that IS
                        # given must still be exactly the selected samples whose genotype contains the base
                        probe('answer_at_site_with_missing_genotype')
                        c_ = _containing(vcf, cfg, chrom, pos, base)
                        if c_ is not None and want != c_:
                            viol.append({'property': PROPERTY, 'class': 'eager-disagrees-with-vcf-model', 'signature': 'get/site-with-missing-genotype',
                                         'detail': {'lifetime': li, 'query': [chrom, pos, base, kind], 'eager': want, 'samples_whose_genotype_contains_the_base': c_}})
            at_mod.gzip = real_gzip
            cache_after = set(os.listdir(cache_dir)) if os.path.isdir(cache_dir) else set()
            if life['cache'] and life['lazy'] and any(f.split('.')[0].split('_')[0] in visited for f in cache_before):
                used_cache = True
                probe('cache_file_read_in_later_lifetime')
            if revisit and life['lazy']:
                probe('evicted_contig_revisited')
            log.add('life', li, sorted(cache_after))
            sigs.append((log.digest()[:16], used_cache or (revisit and life['lazy']) or (life['cache'] and not life['lazy'])))
    return {'violations': viol, 'digest': log.digest(), 'probes': probes, 'faults': faults_fired, 'evals': len(case['lifetimes']),
            'sigs': sigs, 'steps': log.n, 'nontrivial': any(s[1] for s in sigs)}


def sample_view(case, out):
    return {'vcf': {'contigs': case['vcf']['contigs'], 'samples': case['vcf']['samples'], 'records(first 6)': case['vcf']['records'][:6]},
            'lifetimes': [{**l, 'queries': l['queries'][:6]} for l in case['lifetimes']]}


def LIST_PATHS(case):
    paths = [('lifetimes',), ('vcf', 'records')]
    for i in range(len(case['lifetimes'])):
        paths.append(('lifetimes', i, 'queries'))
    return paths


def _shrink(case):
    for i, l in enumerate(case['lifetimes']):
        for k, v in (('select', None), ('ignore', None), ('phased', True)):
            if l[k] != v:
                ls = [dict(x) for x in case['lifetimes']]
                ls[i][k] = v
                yield {**case, 'lifetimes': ls}


SHRINKERS = (_shrink,)
