"""C12 - binned molecule counting is independent of how the genome is split into jobs.

Real: generate_jobs, generate_commands, count_fragments_binned, read_counts, obtain_counts
(merge loop), pysam fetch on a real indexed BAM in scratch.  Stub: SimPool bound to the name
`multiprocessing` inside bamBinCounts (completion order, pool width chosen by the scheduler).
"""
import os

from ..rng import Streams, weighted, stream
from ..log import EventLog
from ..pool import Scheduler, SimPoolFactory, SimHang
from ..scratch import scratch

NAME = 'bins'
PROPERTY = 'C12'
LEVEL = 'exploration'
RULE = ('A case is one seeded tagged BAM (1..4 contigs, 1..6 cells, 0..120 records with SM/DS/flags/MAPQ/mp/DA drawn directly; DS within '
        'max_fragment_size of its read, a forced share exactly on bin and job boundaries, at 0 and contig_len-1; records without DS; '
        'read2, qc-fail, duplicate, low-MAPQ, non-unique records; split reads = further read-1 records under the same query name) x bin_size x (every bins_per_job in 1..min(#bins,10) plus two large values) '
        'x pool width 1..8 x a seeded completion order per configuration; key_tags in {None,(DA,)}; dedup on/off; histories in one process: the file '
        're-written and counted again, the same file counted under another bin size / key tags / filter and then under the first configuration again. '
        'evaluations = (BAM, bins_per_job, schedule) executions. Non-trivial: >=2 jobs ran, >=1 record counted and at least one counted '
        'site lies within max_fragment_size of a job boundary while its read starts in another job; distinct = distinct (input, job split, delivery order) digests among those.')
ASSUMPTIONS = [
    'sites are within max_fragment_size of their read (documented look-around contract) and inside the contig',
    'kwargs is passed as a dict as bamCopyNumber does (generate_commands(kwargs=None) makes every job raise AttributeError: outside the statement, noted in DESIGN.md)',
    'SimPool executes each job body atomically in-process with pickled arguments/results; jobs only read the shared BAM',
]
COMPONENTS = {
    'real': ['bamBinCounts.generate_jobs', 'generate_commands', 'count_fragments_binned', 'read_counts', 'obtain_counts', 'pysam BAM write/index/fetch'],
    'stub': ['SimPool (bamBinCounts.multiprocessing): seeded start/complete/deliver order, pool width'],
}
ISOLATE = True      # bamBinCounts is called inside the worker: every case runs in a forked child (module-level state cannot travel between cases)
REQUIRED_PROBES = ['second_file_has_an_extra_contig', 'other_configuration_in_same_process', 'records_sharing_a_query_name', 'file_rewritten_and_counted_again', 'several_bam_files', 'site_on_job_boundary', 'site_owned_by_other_job_than_read_start', 'multi_job', 'delivery_order_not_submission_order', 'filtered_record']


def plan(tier):
    if tier == 'quick':
        return {'runs': 1600, 'budget_s': 45, 'chunk': 10, 'per_run_timeout': 300}
    return {'runs': 60000, 'budget_s': 560, 'chunk': 20, 'per_run_timeout': 600}


def setup():
    import singlecellmultiomics.bamProcessing.bamBinCounts  # noqa


def generate(seed, tier):
    st = Streams(seed)
    w = st.workload
    nctg = w.choice([1, 1, 2, 3, 4])
    bin_size = weighted(w, [(w.randint(10, 60), 3), (w.randint(61, 500), 4), (w.randint(501, 5000), 2)])
    contigs = []
    for i in range(nctg):
        nb = weighted(w, [(1, 1), (w.randint(2, 6), 5), (w.randint(7, 14), 2)])
        ln = nb * bin_size - w.choice([0, 0, 1, bin_size // 2, bin_size - 1])
        contigs.append([f'c{i}', max(ln, 5)])
    mfs = weighted(w, [(w.randint(1, max(2, bin_size // 2)), 3), (bin_size, 2), (w.randint(bin_size, 3 * bin_size), 2), (1000, 1)])
    ncell = w.randint(1, 6)
    nrec = weighted(w, [(w.randint(0, 5), 2), (w.randint(6, 40), 5), (w.randint(41, 120), 2)])
    total_bins = sum(-(-ln // bin_size) for _, ln in contigs)
    max_bins = max(-(-ln // bin_size) for _, ln in contigs)
    bpj_all = list(range(1, min(max_bins, 10) + 1)) + [max_bins + 3, 1000]
    recs = []
    for n in range(nrec):
        ci = w.randrange(nctg)
        clen = contigs[ci][1]
        rl = w.randint(1, min(50, clen))
        # choose the site first (with forced boundary share), then a read within the look-around
        x = w.random()
        if x < 0.35:
            bpj = w.choice(bpj_all[:-2])
            k = w.randint(0, max(0, clen // (bin_size * bpj)))
            site = min(clen - 1, max(0, k * bin_size * bpj + w.choice([0, 0, -1, 1])))
        elif x < 0.5:
            k = w.randint(0, clen // bin_size)
            site = min(clen - 1, max(0, k * bin_size + w.choice([0, -1])))
        elif x < 0.58:
            site = w.choice([0, clen - 1])
        else:
            site = w.randrange(clen)
        lo = max(0, site - mfs - rl + 1)       # read end - 1 + mfs >= site
        hi = min(clen - rl, site + mfs)        # read start - mfs <= site
        if hi < lo:
            lo = hi = max(0, min(clen - rl, site))
        start = weighted(w, [(w.randint(lo, hi), 3), (lo, 1), (hi, 1), (max(lo, min(hi, site)), 2)])
        has_ds = w.random() < 0.85
        recs.append({
            'n': n, 'cell': w.randrange(ncell), 'ctg': ci, 'start': start, 'len': rl,
            'ds': site if has_ds else None,
            'rev': w.random() < 0.5,
            'r1': w.random() < 0.8, 'paired': w.random() < 0.8,
            'qcfail': w.random() < 0.1, 'dup': w.random() < 0.15,
            'mq': weighted(w, [(60, 6), (w.randint(0, 59), 3)]),
            'mp': weighted(w, [(None, 6), ('unique', 2), ('multi', 1)]),
            'da': w.choice([None, 'a', 'b']),
            'sm': w.random() < 0.95,
        })
    # split reads: a further read-1 record (supplementary alignment) under the SAME query name, near its primary or far from it
    if recs and w.random() < 0.4:
        for n in range(nrec, nrec + w.randint(1, 6)):
            src = w.choice(recs[:nrec])
            clen = contigs[src['ctg']][1]
            o = dict(src)
            shift = weighted(w, [(w.randint(1, max(1, bin_size // 2)), 3), (w.randint(bin_size, 3 * bin_size), 3), (w.randint(1, max(1, clen - 1)), 1)]) * w.choice([1, -1])
            o['start'] = min(max(0, src['start'] + shift), clen - src['len'])
            if src['ds'] is not None:
                o['ds'] = min(max(0, src['ds'] + (o['start'] - src['start'])), clen - 1)
            o.update({'n': n, 'alias': src['n'], 'supp': w.random() < 0.7})
            recs.append(o)
    params = {
        'contigs': contigs, 'bin_size': bin_size, 'max_fragment_size': mfs,
        'min_mq': w.choice([None, 0, 20, 50, 60]), 'key_tags': w.choice([None, None, ['DA']]),
        'dedup': w.random() < 0.8, 'ignore_mp': w.random() < 0.25,
        # several libraries counted together (generate_commands accepts a list of BAMs, as bamCopyNumber passes it); cells are disjoint between files
        'split_files': w.random() < 0.25,
    }
    if params['split_files'] and ncell >= 2 and w.random() < 0.5:
        # the libraries were not mapped against exactly the same reference: the second file's header has one more contig (a spike-in) with records
        xl = w.randint(2, 6) * bin_size - w.choice([0, 1, bin_size // 2])
        contigs.append([f'c{nctg}', max(xl, 5)])
        params['extra_contig_in_second_file'] = True
        odd = [c for c in range(ncell) if c % 2 == 1]
        for n in range(len(recs), len(recs) + w.randint(1, 8)):
            rl = w.randint(1, min(50, contigs[-1][1]))
            start = w.randint(0, contigs[-1][1] - rl)
            recs.append({'n': n, 'cell': w.choice(odd), 'ctg': nctg, 'start': start, 'len': rl, 'ds': min(contigs[-1][1] - 1, start + w.randint(0, min(mfs, rl))),
                         'rev': False, 'r1': True, 'paired': False, 'qcfail': False, 'dup': False, 'mq': 60, 'mp': None, 'da': w.choice([None, 'a', 'b']), 'sm': True})
    configs = []
    for bpj in bpj_all:
        configs.append({'bins_per_job': bpj, 'threads': st.schedule.randint(1, 8),
                        'schedule': {'policy': 'seeded', 'seed': f'{seed}/{bpj}'}})
    second = None
    if w.random() < 0.2 and recs:
        # history in one process: the BAM at this path is re-written (longer contigs, one more contig, more records) and counted again
        extra = []
        c2 = [[c, l + w.randint(1, 3) * bin_size] for c, l in contigs] + [[f'c{nctg}', w.randint(2, 6) * bin_size]]
        for n in range(nrec, nrec + w.randint(1, 12)):
            ci = w.randrange(len(c2))
            clen = c2[ci][1]
            rl = w.randint(1, min(50, clen))
            start = w.randint(max(0, (contigs[ci][1] if ci < nctg else 0) - rl), clen - rl)
            extra.append({'n': n, 'cell': w.randrange(ncell), 'ctg': ci, 'start': start, 'len': rl, 'ds': min(clen - 1, start + w.randint(0, min(mfs, rl))),
                          'rev': False, 'r1': True, 'paired': False, 'qcfail': False, 'dup': False, 'mq': 60, 'mp': None, 'da': None, 'sm': True})
        second = {'contigs': c2, 'extra': extra, 'bins_per_job': [w.choice(bpj_all), w.choice(bpj_all)]}
    # history in one process: the same file counted again under ANOTHER configuration (bin size, key tags, filters) - as a notebook or
    # the copy-number tools do when they try several resolutions; the answer must be a function of (file, configuration) alone
    third = None
    if w.random() < 0.5:
        third = {'bin_size': weighted(w, [(bin_size * 2, 2), (max(2, bin_size // 2), 2), (w.randint(5, 3000), 2)]),
                 'key_tags': w.choice([None, ['DA']]), 'min_mq': w.choice([None, 0, 20, 60]), 'dedup': w.random() < 0.8,
                 'bins_per_job': w.choice([1, 2, 3, 1000]), 'then_first_again': w.random() < 0.5}
    return {'params': params, 'workload': recs, 'configs': configs, 'second': second, 'third': third}


def write_bam(path, contigs, recs):
    import pysam
    header = pysam.AlignmentHeader.from_dict({'HD': {'VN': '1.6', 'SO': 'coordinate'},
                                              'SQ': [{'SN': c, 'LN': l} for c, l in contigs]})
    with pysam.AlignmentFile(path, 'wb', header=header) as out:
        for r in sorted(recs, key=lambda r: (r['ctg'], r['start'], r['n'])):
            s = pysam.AlignedSegment(header)
            s.query_name = f"q{r.get('alias', r['n'])}"
            flag = 0x800 if r.get('supp') else 0
            if r['paired']:
                flag |= 0x1 | (0x40 if r['r1'] else 0x80)
            else:
                flag |= (0x40 if r['r1'] else 0)
            if r['rev']:
                flag |= 0x10
            if r['qcfail']:
                flag |= 0x200
            if r['dup']:
                flag |= 0x400
            s.flag = flag
            s.reference_id = r['ctg']
            s.reference_start = r['start']
            s.mapping_quality = r['mq']
            s.query_sequence = 'A' * r['len']
            s.cigartuples = [(0, r['len'])]
            if r['sm']:
                s.set_tag('SM', f"cell{r['cell']}")
            if r['ds'] is not None:
                s.set_tag('DS', r['ds'])
            if r['mp'] is not None:
                s.set_tag('mp', r['mp'])
            if r['da'] is not None:
                s.set_tag('DA', r['da'])
            out.write(s)
    pysam.index(path)


def model_counts(params, recs):
    counts = {}
    bs = params['bin_size']
    for r in recs:
        if not r['r1']:
            continue
        if r['qcfail']:
            continue
        if params['dedup'] and r['dup']:
            continue
        if not params['ignore_mp'] and r['mp'] is not None and r['mp'] != 'unique':
            continue
        if params['min_mq'] is not None and r['mq'] < params['min_mq']:
            continue
        site = r['ds'] if r['ds'] is not None else r['start']
        cname, clen = params['contigs'][r['ctg']]
        b0 = (site // bs) * bs
        key = (cname, b0, min(b0 + bs, clen))
        if params['key_tags']:
            key = (r['da'],) + key
        sample = f"cell{r['cell']}" if r['sm'] else 'bulk'
        counts.setdefault(key, {})
        counts[key][sample] = counts[key].get(sample, 0) + 1
    return counts


def execute(case):
    import singlecellmultiomics.bamProcessing.bamBinCounts as bbc
    log = EventLog(case.get('run_seed'))
    params, recs = case['params'], case['workload']
    viol, probes, sigs, traces = [], {}, [], []
    orders = []

    def probe(k, n=1):
        probes[k] = probes.get(k, 0) + n

    want = model_counts(params, recs)
    n_counting = sum(sum(v.values()) for v in want.values())
    if n_counting < sum(1 for r in recs):
        probe('filtered_record')
    steps = 0
    with scratch() as d:
        bam = os.path.join(d, 'in.bam')
        write_bam(bam, params['contigs'], recs)
        bam_arg = bam
        if params.get('split_files') and len({r['cell'] for r in recs}) >= 2:
            b0, b1 = os.path.join(d, 'lib0.bam'), os.path.join(d, 'lib1.bam')
            c0 = params['contigs'][:-1] if params.get('extra_contig_in_second_file') else params['contigs']
            if params.get('extra_contig_in_second_file'):
                probe('second_file_has_an_extra_contig')
            write_bam(b0, c0, [r for r in recs if r['cell'] % 2 == 0 and r['sm']])
            write_bam(b1, params['contigs'], [r for r in recs if not (r['cell'] % 2 == 0 and r['sm'])])
            if all((r['cell'] % 2 == 1) for r in recs if not r['sm']) or True:
                # records without SM count as 'bulk': keep them all in one file so that samples stay disjoint between files
                bam_arg = [b0, b1]
                probe('several_bam_files')
        real_mp = bbc.multiprocessing
        try:
            for ci, cfg in enumerate(case['configs']):
                bpj = cfg['bins_per_job']
                sub = EventLog()
                sched = Scheduler(cfg.get('schedule'), stream(cfg.get('schedule', {}).get('seed', '0'), 'schedule'), sub)
                fac = SimPoolFactory(sched)
                bbc.multiprocessing = fac
                width = params['bin_size'] * bpj
                # reach probes on the job split
                njobs = sum(len(range(0, clen, width)) for _, clen in params['contigs'])
                boundary = False
                cross = False
                for r in recs:
                    site = r['ds'] if r['ds'] is not None else r['start']
                    if site % width in (0, width - 1) and site > 0:
                        boundary = True
                    if site // width != r['start'] // width:
                        cross = True
                if njobs > 1:
                    probe('multi_job')
                if boundary:
                    probe('site_on_job_boundary')
                if cross:
                    probe('site_owned_by_other_job_than_read_start')
                try:
                    cmds = list(bbc.generate_commands(bam_arg, bin_size=params['bin_size'], bins_per_job=bpj,
                                                      min_mq=params['min_mq'], max_fragment_size=params['max_fragment_size'],
                                                      key_tags=params['key_tags'], dedup=params['dedup'],
                                                      kwargs={'ignore_mp': params['ignore_mp']}))
                    got = bbc.obtain_counts(cmds, reference=None, live_update=False, threads=cfg['threads'])
                except SimHang as e:
                    raise
                except Exception as e:
                    viol.append({'property': PROPERTY, 'class': 'counting-raised', 'signature': type(e).__name__,
                                 'detail': {'config': cfg, 'error': repr(e)[:300]}})
                    sub.add('raised', type(e).__name__)
                    log.add('cfg', ci, bpj, sub.digest())
                    traces.append(sched.trace)
                    continue
                order = fac.pools[0].order if fac.pools else []
                orders.append(f'{len(order)}:' + ','.join(map(str, order[:40])))
                if order != sorted(order):
                    probe('delivery_order_not_submission_order')
                sub.add('result', sorted((list(map(str, k)), sorted(v.items())) for k, v in got.items()))
                steps += sched.steps
                traces.append(sched.trace)
                norm_got = {k: dict(v) for k, v in got.items() if v}
                if norm_got != want:
                    missing = {k: v for k, v in want.items() if norm_got.get(k) != v}
                    extra = {k: v for k, v in norm_got.items() if want.get(k) != v}
                    tot_got = sum(sum(v.values()) for v in norm_got.values())
                    cls = 'undercount' if tot_got < n_counting else ('overcount' if tot_got > n_counting else 'wrong-bin')
                    viol.append({'property': PROPERTY, 'class': cls, 'signature': f"bins_per_job={'1' if bpj == 1 else ('all' if njobs == len(params['contigs']) else 'k')}",
                                 'detail': {'config': cfg, 'njobs': njobs, 'total_got': tot_got, 'total_want': n_counting,
                                            'want_not_got': sorted((list(map(str, k)), sorted(v.items())) for k, v in missing.items())[:4],
                                            'got_not_want': sorted((list(map(str, k)), sorted(v.items())) for k, v in extra.items())[:4]}})
                log.add('cfg', ci, bpj, sub.digest())
                sigs.append((sub.digest()[:16], njobs > 1 and n_counting > 0 and cross))
            if any('alias' in r for r in recs):
                probe('records_sharing_a_query_name')
            if case.get('third'):
                th = case['third']
                probe('other_configuration_in_same_process')
                rounds = [dict(params, bin_size=th['bin_size'], key_tags=th['key_tags'], min_mq=th['min_mq'], dedup=th['dedup'])]
                if th.get('then_first_again'):
                    rounds.append(dict(params))
                for ri, p3 in enumerate(rounds):
                    want3 = model_counts(p3, recs)
                    sub = EventLog()
                    sched = Scheduler({'policy': 'seeded'}, stream(f"{case.get('run_seed')}/third/{ri}", 'schedule'), sub)
                    bbc.multiprocessing = SimPoolFactory(sched)
                    try:
                        cmds = list(bbc.generate_commands(bam_arg, bin_size=p3['bin_size'], bins_per_job=th['bins_per_job'], min_mq=p3['min_mq'], max_fragment_size=p3['max_fragment_size'],
                                                          key_tags=p3['key_tags'], dedup=p3['dedup'], kwargs={'ignore_mp': p3['ignore_mp']}))
                        got3 = {k: dict(v) for k, v in bbc.obtain_counts(cmds, reference=None, live_update=False, threads=2).items() if v}
                    except SimHang:
                        raise
                    except Exception as e:
                        viol.append({'property': PROPERTY, 'class': 'counting-raised', 'signature': 'other-configuration/' + type(e).__name__, 'detail': {'error': repr(e)[:300]}})
                        continue
                    log.add('third', ri, sorted((list(map(str, k)), sorted(v.items())) for k, v in got3.items()))
                    if got3 != want3:
                        tg, tw_ = sum(sum(v.values()) for v in got3.values()), sum(sum(v.values()) for v in want3.values())
                        viol.append({'property': PROPERTY, 'class': 'undercount' if tg < tw_ else ('overcount' if tg > tw_ else 'wrong-bin'), 'signature': 'other-configuration-in-same-process',
                                     'detail': {'round': ri, 'configuration': {k: p3[k] for k in ('bin_size', 'key_tags', 'min_mq', 'dedup')}, 'bins_per_job': th['bins_per_job'], 'total_got': tg, 'total_want': tw_,
                                                'got_not_want': sorted((list(map(str, k)), sorted(v.items())) for k, v in got3.items() if want3.get(k) != v)[:4]}})
            if case.get('second') and not params.get('split_files'):
                sec = case['second']
                p2 = dict(params, contigs=sec['contigs'])
                recs2 = recs + sec['extra']
                write_bam(bam, p2['contigs'], recs2)        # same path, new content, fresh index
                want2 = model_counts(p2, recs2)
                probe('file_rewritten_and_counted_again')
                for bpj in sec['bins_per_job']:
                    sub = EventLog()
                    sched = Scheduler({'policy': 'seeded'}, stream(f"{case.get('run_seed')}/second/{bpj}", 'schedule'), sub)
                    bbc.multiprocessing = SimPoolFactory(sched)
                    try:
                        cmds = list(bbc.generate_commands(bam, bin_size=p2['bin_size'], bins_per_job=bpj, min_mq=p2['min_mq'], max_fragment_size=p2['max_fragment_size'],
                                                          key_tags=p2['key_tags'], dedup=p2['dedup'], kwargs={'ignore_mp': p2['ignore_mp']}))
                        got2 = {k: dict(v) for k, v in bbc.obtain_counts(cmds, reference=None, live_update=False, threads=2).items() if v}
                    except SimHang:
                        raise
                    except Exception as e:
                        viol.append({'property': PROPERTY, 'class': 'counting-raised', 'signature': 'second-version/' + type(e).__name__, 'detail': {'error': repr(e)[:300]}})
                        continue
                    log.add('second', bpj, sorted((list(map(str, k)), sorted(v.items())) for k, v in got2.items()))
                    if got2 != want2:
                        tg, tw_ = sum(sum(v.values()) for v in got2.values()), sum(sum(v.values()) for v in want2.values())
                        viol.append({'property': PROPERTY, 'class': 'undercount' if tg < tw_ else 'wrong-bin', 'signature': 'second-version-of-the-file',
                                     'detail': {'bins_per_job': bpj, 'total_got': tg, 'total_want': tw_, 'contigs_before': params['contigs'], 'contigs_after': sec['contigs']}})
        finally:
            bbc.multiprocessing = real_mp
    return {'violations': viol, 'digest': log.digest(), 'probes': probes, 'faults': {}, 'evals': len(case['configs']),
            'sigs': sigs, 'steps': steps, 'nontrivial': any(s[1] for s in sigs), 'schedule_traces': traces, 'sets': {'delivery_orders': orders}}


def make_explicit(case, out):
    c = dict(case)
    c['configs'] = [dict(cfg, schedule={'policy': 'explicit', 'decisions': tr}) for cfg, tr in zip(case['configs'], out['schedule_traces'])]
    return c


def sample_view(case, out):
    return {'params': case['params'], 'records(first 8 of %d)' % len(case['workload']): case['workload'][:8], 'configs(first 4)': case['configs'][:4]}


def LIST_PATHS(case):
    return [('configs',), ('workload',)]


def _shrink(case):
    for cfgi, cfg in enumerate(case['configs']):
        if cfg['threads'] != 1:
            cs = [dict(c) for c in case['configs']]
            cs[cfgi]['threads'] = 1
            yield {**case, 'configs': cs}
        if cfg.get('schedule', {}).get('policy') != 'fifo':
            cs = [dict(c) for c in case['configs']]
            cs[cfgi]['schedule'] = {'policy': 'fifo'}
            yield {**case, 'configs': cs}
    p = case['params']
    for k, v in (('key_tags', None), ('min_mq', None), ('ignore_mp', False), ('dedup', True)):
        if p[k] != v:
            yield {**case, 'params': {**p, k: v}}


SHRINKERS = (_shrink,)
